"""C12 — soft demapper llr<FloatType,LLR>() of Util.h.

Correspondence: the C++ threshold tables of all six (type,width) pairs, dumped as bit patterns, against the tables the
extracted ImplLLR computes; llr() on thresholds, their neighbours, special values and random bit patterns, bit-exact.
Property oracle on the real code: (a) in Python with exact rationals on every llr case of the run (non-zero / range,
sign = Gray dibit of the nearest level under the 1e-6 guard, saturation, NaN/inf, monotonicity over the value-sorted
sample), cross-checked with the extracted SpecLLR; (b) in C++ (harness `sweep`, long double) over contiguous ranges of
bit patterns including every adjacent pair: neighbourhoods of all thresholds (quick), ALL 2^32 floats (thorough).
Widths 2 and 3 are known to break the sign clause (finding F11): reported under keys llr-width-<L>-<float|double>."""
import json
import struct
from concurrent.futures import ThreadPoolExecutor
from fractions import Fraction
from vlib import COQ, VERIF

PROPERTY = "C12"
CONSTS = ["llr"]
COQ_TARGETS = ["Properties_C12.vo", "Extract_C12.vo"]
PROPERTIES_FILE = "Properties_C12.v"
LEVEL = "proof"
RULE = ("llr<T,L>(x) for T in {float,double}, L in {2,3,4}: every table threshold with its predecessor and successor, +-0, "
        "smallest/largest denormals, smallest normal, largest finite, +-inf, quiet/signalling NaNs with payloads, +-1, +-2, +-3 "
        "and neighbours, the floats next to b +- 1e-6 for b in {0,+-2}; random samples: 70% uniform mantissa with exponent such "
        "that |x| < 8, 30% uniform bit patterns (10^5 float/width 4 quick, 10^6 thorough; fewer for the other configurations); "
        "C++ sweeps over contiguous bit-pattern ranges (2^13 patterns around every threshold and special value quick; all 2^32 "
        "float patterns for widths 2,3,4 thorough; 2^21 patterns around every double threshold thorough).  A case is "
        "non-trivial unless it is a NaN; distinct by (type,width,bit pattern).  distinct_nontrivial counts the llr cases only; the "
        "patterns of the C++ sweeps are added to evaluations but not to distinct_nontrivial (conservative).")
ASSUMPTIONS = ["model = hand-written ImplLLR.v (SpecFloat IEEE operations, proved equal to Flocq's Bplus/Bminus/Bdiv/binary_normalize "
               "by c12_model_is_flocq_ieee); tie = table dump of detail::make_llr_map + differential run of llr() on the cases of this run",
               "the compile-time table (GCC constant evaluation) is the one llr() uses; the harness also evaluates make_llr_map at run "
               "time and flags a difference",
               "x86-64, FLT_EVAL_METHOD = 0, round-to-nearest; the guard 1e-6 is taken on the exact value of the sample",
               "second-soft-bit monotonicity is read per half-line (0 <= x <= y or y <= x <= 0), as in DESIGN.md; across signs the "
               "float thresholds differ by a few ulp (theorem c12_llr_second_cross_sign_asymmetry)"]
EXPLANATION = ("Property theorems quantify over every binary32/binary64 datum and are closed under the global context; "
               "c12_model_is_flocq_ieee (model arithmetic = Flocq arithmetic) rests on the standard library's real-number axioms.")

TYPES = {"f": dict(name="float", bits=32, mw=23, ew=8, hexw=8), "d": dict(name="double", bits=64, mw=52, ew=11, hexw=16)}
CONFIGS = [(t, L) for t in ("f", "d") for L in (4, 3, 2)]
GRAY = {3: (0, 1), 1: (0, 0), -1: (1, 0), -3: (1, 1)}     # M17 spec: level -> (first bit, second bit)
EPS = Fraction(1, 10 ** 6)


def build_model(ctx):
    ctx.model = ctx.build_ocaml("c12_driver", [COQ / "c12_model.mli", COQ / "c12_model.ml", VERIF / "ocaml" / "c12_driver.ml"])


# ------------------------------------------------------------------ IEEE helpers (exact)
def classify(t, b):
    """bit pattern -> ('nan'|'inf'|'fin', sign, Fraction value or None)"""
    T = TYPES[t]
    mw, ew = T["mw"], T["ew"]
    frac = b & ((1 << mw) - 1)
    e = (b >> mw) & ((1 << ew) - 1)
    s = b >> (mw + ew)
    bias = (1 << (ew - 1)) - 1
    if e == (1 << ew) - 1:
        return ("nan", s, None) if frac else ("inf", s, None)
    if e == 0:
        v = Fraction(frac, 1 << (bias - 1 + mw))
    else:
        v = Fraction((1 << mw) | frac, 1 << mw) * (Fraction(2) ** (e - bias))
    return ("fin", s, -v if s else v)


def of_float(t, x):
    return struct.unpack("<I", struct.pack("<f", x))[0] if t == "f" else struct.unpack("<Q", struct.pack("<d", x))[0]


def neighbours(t, b):
    """bit patterns of the representable values just below and just above (by value); NaN -> []"""
    T = TYPES[t]
    sign = 1 << (T["bits"] - 1)
    kind, s, _ = classify(t, b)
    if kind == "nan":
        return []
    mag = b & (sign - 1)
    inf = ((1 << T["ew"]) - 1) << T["mw"]
    out = []
    # up
    if not s:
        if mag < inf:
            out.append(b + 1)
    else:
        out.append(b - 1 if mag > 0 else 1)
    # down
    if s:
        if mag < inf:
            out.append(b + 1)
    else:
        out.append(b - 1 if mag > 0 else sign | 1)
    return out


def order_key(t, b):
    """integer order-isomorphic to the value (+-0 equal)"""
    T = TYPES[t]
    sign = 1 << (T["bits"] - 1)
    mag = b & (sign - 1)
    return -mag if b & sign else mag


def expected_dibit(v):
    """Gray dibit of the nearest level, independent rational arithmetic"""
    best = min(GRAY, key=lambda l: (abs(v - l), -l))
    return GRAY[best]


def guard(v):
    return all(abs(v - b) > EPS for b in (0, 2, -2))


def fmt_bits(t, b):
    return "%0*x" % (TYPES[t]["hexw"], b)


def value_str(t, b):
    kind, s, v = classify(t, b)
    if kind == "nan":
        return "NaN"
    if kind == "inf":
        return "-inf" if s else "+inf"
    return repr(float(v))


# ------------------------------------------------------------------ case generation
def special_patterns(t):
    T = TYPES[t]
    mw, ew, bits = T["mw"], T["ew"], T["bits"]
    sign = 1 << (bits - 1)
    inf = ((1 << ew) - 1) << mw
    pats = [0, 1, 2, (1 << mw) - 1, 1 << mw, (1 << mw) + 1, inf - 1, inf,
            inf | 1, inf | (1 << (mw - 1)), inf | ((1 << mw) - 1), inf | (1 << (mw - 1)) | 12345]
    pats += [p | sign for p in pats]
    for x in (1.0, 2.0, 3.0, 0.5, 1.5, 2.5, 1e-6, 2 - 1e-6, 2 + 1e-6, 1e-7, 0.2, 1.8, 0.9999999, 3.5, 4.0, 7.0, 1e30):
        for sx in (x, -x):
            b = of_float(t, sx)
            pats += [b] + neighbours(t, b)
    return pats


def random_pattern(t, r):
    T = TYPES[t]
    mw, ew, bits = T["mw"], T["ew"], T["bits"]
    if r.chance(3, 10):
        return r.next() & ((1 << bits) - 1)
    bias = (1 << (ew - 1)) - 1
    e = bias + r.range(-24, 2)
    if r.chance(1, 20):
        e = r.range(0, 3)
    return (r.below(2) << (bits - 1)) | (e << mw) | (r.next() & ((1 << mw) - 1))


def parse_table(line):
    """rows=43 bits:i:j ... -> [(bits, i, j)], flag"""
    toks = line.split()
    if not toks or not toks[0].startswith("rows="):
        return None, False
    rows = []
    bad = False
    for tok in toks[1:]:
        if tok == "rt!=ct":
            bad = True
            continue
        h, i, j = tok.split(":")
        rows.append((int(h, 16), int(i), int(j)))
    return rows, bad


# ------------------------------------------------------------------ oracle (Python, exact rationals)
def key_for(t, L, what):
    tn = TYPES[t]["name"]
    if L in (2, 3) and what == "wrong-sign":
        return f"llr-width-{L}-{tn}"
    return f"llr-{what}-{tn}-{L}"


def check_results(ctx, t, L, results, nan_ref):
    """results: list of (bits, a, c).  Reports at most one violation per kind."""
    limit = (1 << (L - 1)) - 1
    reported = set()

    def report(what, b, a, c, extra):
        if what in reported:
            return
        reported.add(what)
        ctx.violation(key_for(t, L, what),
                      f"llr<{TYPES[t]['name']},{L}>: {what} at sample {value_str(t, b)} (bits {fmt_bits(t, b)})",
                      dict(case=f"llr {t} {L} {fmt_bits(t, b)}", sample=value_str(t, b), actual=[a, c], **extra))

    fin = []
    for b, a, c in results:
        kind, s, v = classify(t, b)
        if a == 0 or c == 0:
            report("zero-soft-bit", b, a, c, dict(expected="both soft bits non-zero"))
            continue
        if abs(a) > limit or abs(c) > limit:
            report("out-of-range", b, a, c, dict(expected=f"within +-{limit}"))
            continue
        if kind == "nan":
            if nan_ref is not None and (a, c) != nan_ref:
                report("nan-not-uniform", b, a, c, dict(expected=list(nan_ref)))
            if abs(a) != limit or abs(c) != limit:
                report("nan-not-saturated", b, a, c, dict(expected=f"+-{limit}"))
            continue
        if kind == "inf":
            exp = (limit, limit) if s else (-limit, limit)
            if (a, c) != exp:
                report("inf-not-saturated-level", b, a, c, dict(expected=list(exp)))
            fin.append((order_key(t, b), b, a, c))
            continue
        fin.append((order_key(t, b), b, a, c))
        if guard(v):
            e1, e0 = expected_dibit(v)
            if (a > 0) != (e1 == 1) or (c > 0) != (e0 == 1):
                report("wrong-sign", b, a, c, dict(expected_dibit=f"{e1}{e0}", actual_dibit=f"{int(a > 0)}{int(c > 0)}"))
        if abs(v) >= 3 and (abs(a) != limit or abs(c) != limit):
            report("not-saturated-beyond-3", b, a, c, dict(expected=f"+-{limit}"))
        if v in (1, -1, 3, -3) and (abs(a) != limit or abs(c) != limit):
            report("not-full-confidence-at-level", b, a, c, dict(expected=f"+-{limit}"))
    # monotonicity over the value-sorted sample (adjacent representable pairs are in it for every threshold)
    fin.sort(key=lambda r: r[0])
    for (k0, b0, a0, c0), (k1, b1, a1, c1) in zip(fin, fin[1:]):
        if k0 == k1:
            if (a0, c0) != (a1, c1):
                report("zeros-differ", b1, a1, c1, dict(other=fmt_bits(t, b0), other_result=[a0, c0]))
            continue
        if a1 > a0:
            report("first-increases-with-sample", b1, a1, c1, dict(smaller_sample=fmt_bits(t, b0), smaller_result=[a0, c0]))
        if k0 >= 0 and c1 < c0:
            report("second-decreases-with-magnitude", b1, a1, c1, dict(smaller_magnitude=fmt_bits(t, b0), its_result=[a0, c0]))
        if k1 <= 0 and c0 < c1:
            report("second-decreases-with-magnitude", b0, a0, c0, dict(smaller_magnitude=fmt_bits(t, b1), its_result=[a1, c1]))
    return reported


def sweep_ranges_around(t, pats, radius):
    T = TYPES[t]
    top = (1 << T["bits"]) - (1 if T["bits"] == 64 else 0)     # the harness parses 64-bit bounds
    rs = []
    for p in sorted(set(pats)):
        lo, hi = max(0, p - radius), min(top, p + radius + 1)
        if rs and lo <= rs[-1][1]:
            rs[-1][1] = max(rs[-1][1], hi)
        else:
            rs.append([lo, hi])
    return [(lo, hi) for lo, hi in rs]


def run_sweeps(ctx, exe, jobs, workers=16):
    """jobs: list of (t, L, lo, hi).  Returns list of (job, checked, bad, first)"""
    def one(job):
        t, L, lo, hi = job
        rc, out = ctx.run_exe(exe, input_text=f"sweep {t} {L} {lo:x} {hi:x}\n", timeout=3000)
        toks = out.split()
        f = dict(x.split("=", 1) for x in toks if "=" in x and not x.startswith("fail="))
        fails = [x[5:] for x in toks if x.startswith("fail=")]
        try:
            return job, int(f["checked"]), int(f["bad"]), fails
        except (KeyError, ValueError):
            return job, 0, -1, out[-200:]
    with ThreadPoolExecutor(max_workers=workers) as ex:
        return list(ex.map(one, jobs))


def report_sweeps(ctx, results):
    total = 0
    summary = {}
    for (t, L, lo, hi), checked, bad, first in results:
        total += checked
        k = f"{TYPES[t]['name']}/{L}"
        s = summary.setdefault(k, dict(checked=0, bad=0))
        s["checked"] += checked
        s["bad"] += max(bad, 0)
        if bad < 0:
            ctx.tie_broken("c12-sweep-run", f"sweep {t} {L} {lo:x} {hi:x} failed: {first}")
            continue
        for fail in (first if bad else []):
            cnt, bits, what, a, c, detail = fail.split(":", 5)
            b = int(bits, 16)
            ctx.violation(key_for(t, L, what),
                          f"llr<{TYPES[t]['name']},{L}>: {what} at sample {value_str(t, b)} (bits {bits}); {cnt} of {checked} patterns "
                          f"in [{lo:x},{hi:x}) fail this clause of the C++ oracle",
                          dict(case=f"llr {t} {L} {bits}", sample=value_str(t, b), actual=[int(a), int(c)], detail=detail,
                               sweep=f"sweep {t} {L} {lo:x} {hi:x}", failing_in_range=int(cnt)))
    ctx.evaluations += total
    return summary


# ------------------------------------------------------------------ main
def run(ctx):
    exe = ctx.build_cpp("c12_harness", "c12.cpp")
    model = getattr(ctx, "model", None)
    thorough = ctx.tier == "thorough"
    r = ctx.rng.fork("c12")

    if ctx.replay_in:
        rp = json.load(open(ctx.replay_in))
        case = rp.get("replay", {}).get("case")
        if case and exe:
            _, o = ctx.run_exe(exe, input_text=case + "\n")
            _, m = ctx.run_exe(model, ["impl"], input_text=case + "\n") if model else (0, "")
            _, s = ctx.run_exe(model, ["spec"], input_text=case + "\n") if model else (0, "")
            ctx.log(f"replay {case}: implementation={o.strip()} model={m.strip()} spec={s.strip()}")

    # ---- (0) the instantiation the modem uses
    if model:
        _, info = ctx.run_exe(model, ["impl"], input_text="info\n")
        ctx.coverage["modem_instantiation"] = info.strip()
        if "width=4" not in info:
            ctx.tie_broken("c12-modem-width", f"M17Demodulator no longer instantiates llr<FloatType,4>: {info.strip()}")

    # ---- (1) tables
    tcases = [f"table {t} {L}" for t, L in CONFIGS]
    ttext = "\n".join(tcases) + "\n"
    impl_t = model_t = ""
    if exe:
        rc, impl_t = ctx.run_exe(exe, input_text=ttext)
        if rc != 0:
            ctx.tie_broken("c12-harness-run", f"harness exited {rc}: {impl_t[-300:]}")
    if model:
        _, model_t = ctx.run_exe(model, ["impl"], input_text=ttext)
    if exe and model:
        ctx.diff_lines("llr-table-impl-vs-model", tcases, impl_t, model_t)
    tables = {}
    for src, out in (("impl", impl_t), ("model", model_t)):
        for (t, L), line in zip(CONFIGS, out.strip("\n").split("\n")):
            rows, flag = parse_table(line)
            if rows is None:
                continue
            tables[(src, t, L)] = rows
            if flag:
                ctx.tie_broken("c12-constexpr-vs-runtime", f"make_llr_map<{TYPES[t]['name']},{L}> differs between compile time and run time")
    for c in tcases:
        ctx.case(c)
        ctx.count("table")
    ctx.coverage["table_rows"] = {f"{TYPES[t]['name']}/{L}": len(tables.get(("impl", t, L), [])) for t, L in CONFIGS}
    if ("impl", "f", 4) in tables:
        ctx.sample({"case": "table f 4", "first_rows": [f"{fmt_bits('f', b)}:{i}:{j}" for b, i, j in tables[("impl", "f", 4)][:4]]})

    # ---- (2) llr cases
    cases = []
    per_cfg = {}
    for t, L in CONFIGS:
        pats = list(special_patterns(t))
        for src in ("impl", "model"):
            for b, _, _ in tables.get((src, t, L), []):
                pats.append(b)
                pats += neighbours(t, b)
                for nb in neighbours(t, b):
                    pats += neighbours(t, nb)
        if (t, L) == ("f", 4):
            nrand = 1000000 if thorough else 100000
        elif (t, L) == ("d", 4):
            nrand = 100000 if thorough else 20000
        else:
            nrand = 20000 if thorough else 4000
        rr = r.fork(f"{t}{L}")
        pats += [random_pattern(t, rr) for _ in range(nrand)]
        per_cfg[(t, L)] = pats
        for b in pats:
            cases.append(f"llr {t} {L} {fmt_bits(t, b)}")
    text = "\n".join(cases) + "\n"
    (ctx.workdir / "cases.txt").write_text(text)
    impl_out = model_out = ""
    if exe:
        rc, impl_out = ctx.run_exe(exe, input_text=text, timeout=1800)
        if rc != 0:
            ctx.tie_broken("c12-harness-run", f"harness exited {rc}: {impl_out[-300:]}")
    if model:
        _, model_out = ctx.run_exe(model, ["impl"], input_text=text, timeout=1800)
    if exe and model:
        ctx.diff_lines("llr-impl-vs-model", cases, impl_out, model_out)

    a = impl_out.strip("\n").split("\n") if impl_out.strip() else []
    idx = 0
    spec_cases = []
    for t, L in CONFIGS:
        pats = per_cfg[(t, L)]
        res = []
        for b in pats:
            kind, _, v = classify(t, b)
            ctx.case(f"{t}{L}:{b:x}", nontrivial=(kind != "nan"))
            ctx.count(f"{TYPES[t]['name']}/{L}:" + (kind if kind != "fin" else ("|x|<4" if abs(v) < 4 else "|x|>=4")))
            if idx < len(a):
                try:
                    x, y = a[idx].split()
                    res.append((b, int(x), int(y)))
                except ValueError:
                    ctx.tie_broken("c12-harness-output", f"unparsable harness line for {cases[idx]}: {a[idx][:80]}")
            # extracted-spec cross-check on moderately sized values (big exponents are slow in unary arithmetic)
            if kind == "fin" and (v == 0 or Fraction(1, 1 << 40) < abs(v) < (1 << 40)) and len(spec_cases) < (60000 if thorough else 25000):
                spec_cases.append((idx, t, L, b))
            idx += 1
        if exe and res:
            nan_ref = None
            _, o = ctx.run_exe(exe, input_text=f"llr {t} {L} {fmt_bits(t, of_float(t, float('nan')))}\n")
            try:
                nan_ref = tuple(int(z) for z in o.split())
            except ValueError:
                pass
            check_results(ctx, t, L, res, nan_ref)
    if a:
        for i in (0, len(cases) // 2, len(cases) - 1):
            ctx.sample({"case": cases[i], "impl": a[i] if i < len(a) else None})

    # ---- (2b) the Python oracle's expectation equals the extracted SpecLLR (guard and nearest-level dibit)
    if model and spec_cases:
        stext = "".join(cases[i] + "\n" for i, _, _, _ in spec_cases)
        _, sout = ctx.run_exe(model, ["spec"], input_text=stext, timeout=1800)
        sl = sout.strip("\n").split("\n")
        nbad = 0
        for (i, t, L, b), line in zip(spec_cases, sl):
            _, _, v = classify(t, b)
            e1, e0 = expected_dibit(v)
            g = guard(v)
            want = f"finite=1 guard={int(g)} dibit={e1}{e0}"
            if g and line != want or (not g and not line.startswith("finite=1 guard=0")):
                nbad += 1
                if nbad == 1:
                    ctx.tie_broken("c12-oracle-vs-spec", f"Python oracle and extracted SpecLLR disagree on {cases[i]}: python '{want}' spec '{line}'")
        ctx.coverage["spec_crosscheck_cases"] = len(spec_cases)

    # ---- (3) C++ sweeps: the property oracle over contiguous ranges of bit patterns
    if exe:
        jobs = []
        if thorough:
            for L in (4, 3, 2):
                step = 1 << 27
                for lo in range(0, 1 << 32, step):
                    jobs.append(("f", L, lo, min((1 << 32), lo + step + 1)))
            for L in (4, 3, 2):
                pats = [b for src in ("impl", "model") for b, _, _ in tables.get((src, "d", L), [])] + special_patterns("d")
                for lo, hi in sweep_ranges_around("d", pats, 1 << 20):
                    jobs.append(("d", L, lo, hi))
        else:
            for t, L in CONFIGS:
                pats = [b for src in ("impl", "model") for b, _, _ in tables.get((src, t, L), [])] + special_patterns(t)
                for lo, hi in sweep_ranges_around(t, pats, 1 << 12):
                    jobs.append((t, L, lo, hi))
        res = run_sweeps(ctx, exe, jobs)
        summary = report_sweeps(ctx, res)
        ctx.coverage["cpp_sweeps"] = summary
        ctx.coverage["cpp_sweep_ranges"] = len(jobs)
        ctx.count("swept-bit-patterns", sum(s["checked"] for s in summary.values()))
        if thorough:
            ctx.coverage["exhaustive"] = True
            ctx.coverage["exhaustive_scope"] = ("all 2^32 float bit patterns for widths 2,3,4 through llr<float,L> against the C++ oracle; "
                                                "double: neighbourhoods only (the proof covers every binary64)")
        f4 = summary.get("float/4")
        if f4:
            ctx.sample({"sweep": "llr<float,4>", "checked": f4["checked"], "failing": f4["bad"]})
