"""C02 — Viterbi decoding is maximum-likelihood and its cost is the true path metric.

Correspondence: C++ Viterbi<Trellis<4,2>, W>::decode<IN,OUT> (trellis object of M17FrameDecoder) vs the extracted
ImplViterbi.decode_gen, W = 2..6, the four M17 geometries and short trellises, exact comparison of the output bits and
the cost, plus the three compile-time tables entry by entry.

Property oracle on the real code: an independent reference in the harness (shift-register encoder from the M17
specification + plain DP, brute force for IN <= 16) gives the true minimum distance over all inputs; the distance of the
best word that starts with the returned bits must equal it, the returned cost must be its rounding, the result must not
depend on what the object decoded before, clean code words must decode to their payload, and flip patterns below half
the computed free distance must be corrected.

Tie-breaks: the ML theorems are proved for every tie-break rule (c02_viterbi_ml_any_tiebreak).  If the exact
comparison against the source's rule (strict > and <) fails, the other seven rules are tried; when one of them
reproduces every case of the run, the implementation is still an instance of the proved model class and the run stays
green (the evidence records which rule matched).  Otherwise the tie is reported broken."""
import json
from vlib import COQ, VERIF

PROPERTY = "C02"
CONSTS = ["viterbi"]
COQ_TARGETS = ["Properties_C02.vo", "Extract_C02.vo"]
PROPERTIES_FILE = "Properties_C02.v"
LEVEL = "proof"
RULE = ("soft vectors for widths 2..6 over the four M17 geometries (488,240) (296,144) (420,206) (402,197) and short trellises "
        "IN 2..24: clean code words (full and weak confidence, free or zero tail) under the P1/P2/P3 erasure masks, code words with "
        "0..dfree+1 sign flips (random and clustered at the end of the payload), random/periodic/total erasures, soft noise, "
        "tie-rich vectors over {-L,0,+L}, extremes (+-127,-128), uniform int8, sequences of two or three decodes on one object "
        "(dirty scratch, mixed geometries), and all vectors of {-L,0,+L}^IN exhaustively for IN<=8 (quick) / IN<=12 (thorough). "
        "A case is non-trivial if it has at least one non-erased soft bit; distinct by content.")
ASSUMPTIONS = [
    "model = hand-written ImplViterbi.v; tie = differential run on the cases of this run + regenerated constants + table dump",
    "decoder observed through decode(in,out)->cost only (tables dumped separately)",
    "std::round(min_cost / float(L)) modelled as (2*min+L)/(2L) in integers (min < 2^24 is exact in float, L odd excludes .5 ties); "
    "not an IEEE model - compared on every case of the run",
    "reading of the property: minimum over ALL input sequences (free tail); the zero-terminated reading is refuted in Coq "
    "(c02_viterbi_terminated_ml_refuted) and recorded as an interpretation note",
    "IN even and IN/2 <= 244 (the decoder's own static_assert is weaker: sizeof(history_) >= IN/2 counts bytes)",
]
EXPLANATION = ("c02_viterbi_ml: for every int8 vector, width, even IN<=488, OUT<=IN/2 and object state, decode returns the first OUT "
               "bits of a globally distance-minimising input word and cost = round(min/L); c02_no_wrap: no int16/int32 overflow; "
               "c02_viterbi_corrects / c02_clean_unique: consequences for the four M17 geometries.")

GEOMS_M17 = [(488, 240), (296, 144), (420, 206), (402, 197)]
GEOMS_SHORT = [(2, 1), (4, 2), (6, 3), (8, 4), (10, 5), (12, 6), (16, 8), (24, 12), (10, 1), (12, 2), (16, 4), (24, 8), (4, 1), (8, 2)]
GEOMS_EDGE = [(4, 0), (4, 3), (0, 0)]       # OUT = 0, OUT > IN/2 (correspondence only), empty input
POLICIES = ["000", "100", "010", "110", "001", "101", "011", "111"] + [f"{b}:{st}" for st in range(16) for b in ("000", "001")]


def build_model(ctx):
    ctx.model = ctx.build_ocaml("c02_driver", [COQ / "c02_model.mli", COQ / "c02_model.ml", VERIF / "ocaml" / "c02_driver.ml"])


# ------------------------------------------------------------------ input generation (not part of the oracle)
def conv(w, d0=(0, 0, 0, 0)):
    d = list(d0)
    out = []
    for b in w:
        out += [b ^ d[2] ^ d[3], b ^ d[0] ^ d[1] ^ d[3]]
        d = [b] + d[:3]
    return out


def csv(v):
    return ",".join(str(x) for x in v) if v else "-"


class Gen:
    def __init__(self, ctx, masks, dfree):
        self.ctx = ctx
        self.r = ctx.rng.fork("c02")
        self.masks = masks      # (IN, OUT) -> kept mask (list of 0/1) for the M17 geometries
        self.dfree = dfree
        self.cases = []         # (line, meta)   meta: list per segment of dict(kind, W, IN, OUT, expect_out=None, expect_cost=None)

    def bits(self, n):
        x = int.from_bytes(self.r.bytes((n + 7) // 8), "little")
        return [(x >> i) & 1 for i in range(n)]

    def mask_for(self, IN, OUT, kind):
        r = self.r
        if kind == "geom" and (IN, OUT) in self.masks:
            return list(self.masks[(IN, OUT)])
        if kind == "p2":
            return [0 if i % 12 == 11 else 1 for i in range(IN)]
        if kind == "p3":
            return [0 if i % 8 == 7 else 1 for i in range(IN)]
        if kind == "p1":
            return [0 if (i % 61) % 4 == 2 else 1 for i in range(IN)]
        if kind == "rand":
            p = r.range(1, 9)
            return [0 if r.below(10) < p else 1 for _ in range(IN)]
        if kind == "none":
            return [0] * IN
        return [1] * IN

    def vector(self, W, IN, OUT, kind):
        """returns (soft vector, meta)"""
        r = self.r
        L = (1 << (W - 1)) - 1
        n = IN // 2
        meta = {"kind": kind, "W": W, "IN": IN, "OUT": OUT}
        if kind in ("clean", "clean-weak", "clean-zero-tail"):
            w = self.bits(n)
            if kind == "clean-zero-tail":
                for i in range(max(0, n - 4), n):
                    w[i] = 0
            mk = self.mask_for(IN, OUT, "geom" if (IN, OUT) in self.masks else r.choice(["all", "p2", "p3"]))
            c = conv(w)
            if kind == "clean-weak":
                v = [(1 if c[i] else -1) * r.range(1, L) if mk[i] else 0 for i in range(IN)]
            else:
                v = [(L if c[i] else -L) if mk[i] else 0 for i in range(IN)]
            meta["mask"] = mk
            meta["payload"] = w[:OUT]
            meta["full"] = kind != "clean-weak"
            return v, meta
        if kind in ("flips", "flips-end"):
            w = self.bits(n)
            mk = self.mask_for(IN, OUT, "geom" if (IN, OUT) in self.masks else "all")
            c = conv(w)
            kept = [i for i in range(IN) if mk[i]]
            df = self.dfree.get((IN, OUT), 3)
            e = r.range(0, df + 1)
            if kind == "flips-end":
                pool = [i for i in kept if i >= 2 * max(0, OUT - 8)]
            else:
                pool = kept
            pos = set(r.shuffle(pool)[:e]) if pool else set()
            v = [((L if c[i] else -L) * (-1 if i in pos else 1)) if mk[i] else 0 for i in range(IN)]
            meta["mask"] = mk
            meta["payload"] = w[:OUT]
            meta["flips"] = len(pos)
            return v, meta
        if kind == "burst":
            # a clean code word with a dense burst of full-confidence sign flips in a short window at the very start,
            # at the very end or anywhere: far beyond the correction radius, so that the ML path is NOT the sent one -
            # exercises the start-state penalty, the end-state scan and the traceback on non-trivial survivors
            w = self.bits(n)
            c = conv(w)
            mk = self.mask_for(IN, OUT, "geom" if (IN, OUT) in self.masks and r.chance(1, 2) else "all")
            win = min(IN, r.range(6, 16))
            where = r.below(10)
            start = 0 if where < 5 else (IN - win if where < 8 else r.below(IN - win + 1))
            k = r.range(max(3, win // 2), win)
            pos = set(r.shuffle(list(range(start, start + win)))[:k])
            v = [((L if c[i] else -L) * (-1 if i in pos else 1)) if mk[i] else 0 for i in range(IN)]
            meta["burst"] = [start, win, k]
            return v, meta
        if kind == "offstate":
            # the code word of an encoder that did NOT start in state 0 (any other of the 16 memories), full confidence:
            # a path from that state matches perfectly, so only the start-state penalty keeps the decoder on state-0 paths
            w = self.bits(n)
            d0 = [0, 0, 0, 0]
            while d0 == [0, 0, 0, 0]:
                d0 = [r.below(2) for _ in range(4)]
            c = conv(w, d0)
            v = [(L if c[i] else -L) for i in range(IN)]
            meta["start_memory"] = d0
            return v, meta
        if kind == "erasures":
            w = self.bits(n)
            mk = self.mask_for(IN, OUT, r.choice(["p1", "p2", "p3", "rand", "rand", "none"]))
            c = conv(w)
            v = [(L if c[i] else -L) if mk[i] else 0 for i in range(IN)]
            return v, meta
        if kind == "noise":
            w = self.bits(n)
            c = conv(w)
            amp = r.range(1, 2 * L + 2)
            clip = L if r.chance(2, 3) else 127
            v = []
            for i in range(IN):
                x = (L if c[i] else -L) + r.range(-amp, amp)
                v.append(max(-clip - (1 if clip == 127 else 0), min(clip, x)))
            if (IN, OUT) in self.masks and r.chance(1, 2):
                mk = self.masks[(IN, OUT)]
                v = [v[i] if mk[i] else 0 for i in range(IN)]
            return v, meta
        if kind == "ties":
            return [r.choice([-L, 0, L]) for _ in range(IN)], meta
        if kind == "ties2":
            return [r.choice([-L, L]) for _ in range(IN)], meta
        if kind == "extremes":
            return [r.choice([-128, -127, 127, 0, L, -L, 126, -1, 1]) for _ in range(IN)], meta
        if kind == "allzero":
            return [0] * IN, meta
        # uniform int8
        return [r.range(-128, 127) for _ in range(IN)], meta

    def add(self, W, segs):
        """segs: list of (IN, OUT, kind)"""
        parts, metas = [], []
        for IN, OUT, kind in segs:
            v, m = self.vector(W, IN, OUT, kind)
            parts.append(f"{IN} {OUT} {csv(v)}")
            m["v"] = v
            metas.append(m)
            self.ctx.count(kind)
            self.ctx.count(f"W{W}")
            self.ctx.count("m17-geometry" if (IN, OUT) in GEOMS_M17 else "short")
        if len(segs) > 1:
            self.ctx.count("dirty-scratch-sequence")
        self.cases.append((f"q {W} " + " ".join(parts), metas))


KINDS = ["clean", "clean-weak", "clean-zero-tail", "flips", "flips", "flips-end", "burst", "burst", "offstate", "offstate", "erasures", "noise", "noise", "ties", "ties", "ties2",
         "extremes", "uniform", "allzero"]


def gen_cases(ctx, masks, dfree):
    g = Gen(ctx, masks, dfree)
    r = g.r
    thorough = ctx.tier == "thorough"
    # every kind on every M17 geometry and width
    reps = 6 if thorough else 1
    for _ in range(reps):
        for W in (2, 3, 4, 5, 6):
            for (IN, OUT) in GEOMS_M17:
                for kind in KINDS:
                    g.add(W, [(IN, OUT, kind)])
    # the decoder's own width gets more
    for _ in range(1500 if thorough else 250):
        IN, OUT = r.choice(GEOMS_M17)
        g.add(4, [(IN, OUT, r.choice(KINDS))])
    # short trellises
    for _ in range(30000 if thorough else 4000):
        IN, OUT = r.choice(GEOMS_SHORT)
        g.add(r.range(2, 6), [(IN, OUT, r.choice(KINDS))])
    # dense error bursts at the boundaries of the trellis (start-state penalty, end-state scan), every width and geometry
    for _ in range(40 if thorough else 8):
        for W in (2, 3, 4, 5, 6):
            for (IN, OUT) in GEOMS_M17:
                g.add(W, [(IN, OUT, r.choice(["burst", "offstate"]))])
    for _ in range(3000 if thorough else 600):
        IN, OUT = r.choice([x for x in GEOMS_SHORT if x[0] >= 12] or GEOMS_SHORT)
        g.add(r.range(2, 6), [(IN, OUT, r.choice(["burst", "offstate"]))])
    for (IN, OUT) in GEOMS_EDGE:
        for W in (2, 4, 6):
            for kind in ("ties", "uniform", "clean"):
                g.add(W, [(IN, OUT, kind)])
    # dirty scratch: sequences on one object, mixed geometries (as the frame decoder uses one object for all frame types)
    allg = GEOMS_M17 + GEOMS_SHORT
    for _ in range(600 if thorough else 120):
        W = r.range(2, 6) if r.chance(1, 2) else 4
        k = r.range(2, 3)
        segs = []
        for _ in range(k):
            IN, OUT = r.choice(GEOMS_M17) if r.chance(1, 3) else r.choice(allg)
            segs.append((IN, OUT, r.choice(KINDS)))
        g.add(W, segs)
    return g.cases


# ------------------------------------------------------------------ parsing
def parse_segments(line):
    out = []
    for seg in line.split(" | "):
        d = {}
        for tok in seg.split():
            if "=" in tok:
                k, v = tok.split("=", 1)
                d[k] = v
        out.append(d)
    return out


def canon(line):
    """the part of a result line that model and implementation must agree on"""
    if line.startswith("n="):
        return " ".join(t for t in line.split() if t.startswith("n=") or t.startswith("h="))
    if line.startswith("next=") or line.startswith("rounding"):
        return line.strip()
    return " | ".join(f"out={d.get('out')} cost={d.get('cost')}" for d in parse_segments(line))


class Collector:
    """keeps, per violation key, the failing case with the shortest input (reported) and a count"""

    def __init__(self):
        self.best = {}
        self.count = {}

    def violation(self, key, text, rep):
        self.count[key] = self.count.get(key, 0) + 1
        size = len(rep.get("case", ""))
        if key not in self.best or size < self.best[key][0]:
            self.best[key] = (size, text, rep)

    def flush(self, ctx):
        for key, (size, text, rep) in self.best.items():
            ctx.violation(key, text, dict(rep, failing_cases_of_this_kind_in_run=self.count[key]))
        if self.count:
            ctx.coverage["violation_counts"] = dict(self.count)
        self.best, self.count = {}, {}


def oracle_line(ctx, case, metas, res, model_res=None, col=None):
    """evaluate the property on one harness result line; returns number of violations raised"""
    sink = col if col is not None else ctx
    segs = parse_segments(res)
    msegs = parse_segments(model_res) if model_res else None
    n = 0
    for k, m in enumerate(metas):
        if k >= len(segs) or "out" not in segs[k]:
            break
        d = segs[k]
        W, IN, OUT = m["W"], m["IN"], m["OUT"]
        L = (1 << (W - 1)) - 1
        rep = {"case": case, "segment": k, "W": W, "IN": IN, "OUT": OUT, "input": m["v"], "kind": m["kind"], "implementation": d}
        mn, omin, cost = int(d["min"]), int(d["omin"]), int(d["cost"])
        if mn < 0:
            ctx.tie_broken("c02-reference-self-check", f"harness reference DP and brute force disagree on {case[:200]}")
            continue
        if d.get("fresh") != "same":
            sink.violation("viterbi-scratch-dependent", "decode() on an object that decoded something else before differs from decode() on a fresh object",
                          rep)
            n += 1
        if OUT <= IN // 2:
            if omin != mn:
                rep2 = dict(rep, true_minimum=mn, best_with_returned_bits=omin)
                sink.violation("viterbi-not-ml", "the returned bits are not the prefix of any minimum-distance input word "
                              "(no completion of them reaches the true minimum distance)", rep2)
                n += 1
        if cost != (2 * mn + L) // (2 * L):
            sink.violation("viterbi-cost-wrong", "the returned cost is not the minimum distance divided by the soft limit, rounded to nearest",
                          dict(rep, true_minimum=mn, expected_cost=(2 * mn + L) // (2 * L)))
            n += 1
        if msegs and k < len(msegs) and "mmin" in msegs[k] and int(msegs[k]["mmin"]) != mn and OUT <= IN // 2:
            ctx.tie_broken("c02-reference-vs-proven-minimum",
                           f"harness reference minimum {mn} differs from the model's proven minimum {msegs[k]['mmin']} on {case[:200]}")
        # consequences with expected values
        if OUT <= IN // 2 and "payload" in m and set(d["out"]) <= set("01-"):
            got = [int(ch) for ch in d["out"] if ch in "01"]
            if m["kind"].startswith("clean") and m.get("unique_ok", False):
                if got != m["payload"]:
                    sink.violation("viterbi-clean-not-decoded", "a clean code word (right signs, confidences 1..L, admissible erasures) "
                                  "does not decode to its payload", dict(rep, expected_out="".join(map(str, m["payload"]))))
                    n += 1
                elif m.get("full") and cost != 0:
                    sink.violation("viterbi-cost-wrong", "a full-confidence clean code word is reported with a non-zero cost", rep)
                    n += 1
            if m["kind"].startswith("flips") and "dfree" in m and 2 * m["flips"] < m["dfree"] and got != m["payload"]:
                sink.violation("viterbi-correctable-not-corrected", f"{m['flips']} sign flips (2e < dfree = {m['dfree']}) are not corrected",
                              dict(rep, expected_out="".join(map(str, m["payload"]))))
                n += 1
    return n


def run(ctx):
    exe = ctx.build_cpp("c02_harness", "c02.cpp")
    model = getattr(ctx, "model", None)

    # ---- replay of a recorded input
    if ctx.replay_in:
        rp = json.load(open(ctx.replay_in))
        case = rp.get("replay", {}).get("case")
        if not case:
            ctx.log("replay file names no concrete case: " + json.dumps(rp.get("no_longer_checks", rp))[:600])
            ctx.case("replay", False)
            ctx.sample({"replay": "no concrete input in this replay file"})
            return
        text = case + "\n"
        res = ctx.run_exe(exe, input_text=text)[1].strip() if exe else ""
        mres = ctx.run_exe(model, ["000"], input_text=text)[1].strip() if model else ""
        ctx.log("replay input : " + case[:400])
        ctx.log("implementation: " + res[:400])
        ctx.log("model         : " + mres[:400])
        ctx.case(case)
        ctx.sample({"case": case[:300], "implementation": res[:300], "model": mres[:300]})
        toks = case.split()
        if toks and toks[0] == "q" and exe:
            W = int(toks[1])
            metas = []
            for i in range(2, len(toks) - 2, 3):
                v = [] if toks[i + 2] == "-" else [int(x) for x in toks[i + 2].split(",")]
                metas.append({"kind": "replay", "W": W, "IN": int(toks[i]), "OUT": int(toks[i + 1]), "v": v})
            oracle_line(ctx, case, metas, res, mres)
            if model and canon(res) != canon(mres):
                ctx.tie_broken("viterbi-impl-vs-model", f"replayed case differs: impl={canon(res)[:200]} model={canon(mres)[:200]}")
        return

    # ---- geometry information (masks, dfree) from the extracted specification
    masks, dfree = {}, {}
    if model:
        rc, out = ctx.run_exe(model, ["000"], input_text="g 0\n")
        for seg in out.strip().split(" | "):
            t = seg.split()
            if len(t) == 4:
                masks[(int(t[0]), int(t[1]))] = [int(ch) for ch in t[2]]
                dfree[(int(t[0]), int(t[1]))] = int(t[3])
        ctx.coverage["dfree_per_geometry"] = {f"{k[0]},{k[1]}": v for k, v in dfree.items()}
    if sorted(masks) != sorted(GEOMS_M17):
        ctx.tie_broken("c02-geometries", f"geometries regenerated from the source {sorted(masks)} are not the four M17 geometries")

    cases = gen_cases(ctx, masks, dfree)
    # side conditions for the consequence oracles: a clean word is expected back only under an admissible mask
    if model:
        need = {}
        for line, metas in cases:
            for m in metas:
                if "mask" in m and m["OUT"] <= m["IN"] // 2 and m["IN"] > 0:
                    key = ("".join(map(str, m["mask"])), m["OUT"])
                    need.setdefault(key, []).append(m)
        keys = list(need)
        rc, out = ctx.run_exe(model, ["000"], input_text="".join(f"f {k[1]} {k[0]}\n" for k in keys))
        vals = out.strip().split("\n") if out.strip() else []
        for k, v in zip(keys, vals):
            for m in need[k]:
                m["dfree"] = int(v)
                m["unique_ok"] = int(v) > 0

    lines = [f"t {W}" for W in (2, 3, 4, 5, 6)] + [c[0] for c in cases]
    metas = [None] * 5 + [c[1] for c in cases]
    for W in (2, 3, 4, 5, 6):      # the integer model of std::round(m / float(L)), all m the decoder can produce
        lines.append(f"r {W}")
        metas.append(None)
        ctx.evaluations += 80001
        ctx.count("rounding-model-check", 80001)
    # exhaustive sweeps over {-L,0,+L}^IN
    xs = []
    if ctx.tier == "thorough":
        for W in (2, 3, 4, 5, 6):
            xs += [(W, 2, 1), (W, 4, 2), (W, 6, 3), (W, 8, 4), (W, 8, 2), (W, 10, 5), (W, 10, 1), (W, 12, 6), (W, 12, 2)]
    else:
        for W in (2, 4, 6):
            xs += [(W, 2, 1), (W, 4, 2), (W, 6, 3), (W, 8, 4), (W, 8, 2)]
    for W, IN, OUT in xs:
        lines.append(f"x {W} {IN} {OUT}")
        metas.append(None)
    text = "\n".join(lines) + "\n"
    (ctx.workdir / "cases.txt").write_text(text)

    impl_out = model_out = ""
    if exe:
        rc, impl_out = ctx.run_exe(exe, input_text=text, timeout=3000)
        if rc != 0:
            ctx.tie_broken("c02-harness-run", f"harness exited {rc}: {impl_out[-300:]}")
    if model:
        rc, model_out = ctx.run_exe(model, ["000"], input_text=text, timeout=3000)
        if rc != 0:
            ctx.tie_broken("c02-model-run", f"model driver exited {rc}: {model_out[-300:]}")
    a = impl_out.strip("\n").split("\n") if impl_out.strip() else []
    b = model_out.strip("\n").split("\n") if model_out.strip() else []

    for line, ms in cases:
        ctx.case(line, nontrivial=any(any(x != 0 for x in m["v"]) for m in ms))
    for W, IN, OUT in xs:
        ctx.evaluations += 3 ** IN
        ctx.count("exhaustive-trits", 3 ** IN)
    ctx.coverage["exhaustive_sweeps"] = [f"W={W} IN={IN} OUT={OUT}: all 3^{IN} vectors of {{-L,0,+L}}" for W, IN, OUT in xs]
    def clip(x, n):
        return x if len(x) <= n else x[:n] + f"...({len(x)} chars)"
    picks = [i for i in range(5, 5 + len(cases)) if len(lines[i]) < 120][:2]
    picks += [i for i in range(5, 5 + len(cases)) if lines[i].count(" ") > 5 and len(lines[i]) < 400][:1]
    picks += [5]
    for i in picks:
        if i < len(a):
            ctx.sample({"case": clip(lines[i], 300), "implementation": clip(a[i], 200), "model": clip(b[i], 120) if i < len(b) else None})
    if len(a) > 2:
        ctx.sample({"case": lines[2], "implementation": clip(a[2], 400)})
    if xs and len(a) == len(lines):
        ctx.sample({"case": lines[-1], "implementation": clip(a[-1], 200)})

    # ---- (i) correspondence
    differing = []
    if exe and model:
        ca = "\n".join(canon(l) for l in a)
        cb = "\n".join(canon(l) for l in b)
        if ca != cb:
            la, lb = ca.split("\n"), cb.split("\n")
            differing = [i for i in range(min(len(la), len(lb))) if la[i] != lb[i]]
            matched = None
            if any(lines[i][0] == "r" for i in differing):
                i = [i for i in differing if lines[i][0] == "r"][0]
                ctx.tie_broken("c02-rounding-model", f"std::round(m / float(L)) differs from (2m+L)/(2L): {la[i]}")
            if len(la) == len(lb) and all(lines[i][0] in "qx" for i in differing):
                # a different but admissible tie-break rule?  (the theorems hold for all eight)
                sub = [lines[i] for i in range(len(lines))]
                for pol in POLICIES[1:]:
                    rc, o = ctx.run_exe(model, [pol], input_text=text, timeout=3000)
                    lo = [canon(l) for l in o.strip("\n").split("\n")]
                    if lo == la:
                        matched = pol
                        break
            if matched:
                ctx.notes.append(f"the implementation does not break ties like the source this model mirrors (strict > in the butterflies, strict < in the "
                                 f"end-state scan) but exactly like the model's tie-break rule d0,d1,scan={matched} on all {len(la)} cases; "
                                 f"c02_viterbi_ml_any_tiebreak covers that rule, so the property is still proved of what the code does")
                ctx.coverage["tiebreak_rule_matched"] = matched
                ctx.log(f"tie-break variant: implementation matches model rule {matched} on every case")
                differing = []
            else:
                if len(la) != len(lb):
                    ctx.diff_lines("viterbi-impl-vs-model", lines, ca, cb)
                else:
                    i = min(differing, key=lambda i: (lines[i][0] != "q", len(lines[i])))
                    ctx.tie_broken("viterbi-impl-vs-model",
                                   f"{len(differing)} of {len(la)} cases differ under every tie-break rule; shortest: case#{i} "
                                   f"input={lines[i][:600]} impl={la[i][:300]} model={lb[i][:300]}")
        else:
            ctx.coverage["tiebreak_rule_matched"] = "000 (the source's strict comparisons)"

    # ---- (ii) property oracle on the real code
    nviol = 0
    col = Collector()
    if exe:
        for i, ms in enumerate(metas):
            if i >= len(a):
                break
            if ms is not None:
                nviol += oracle_line(ctx, lines[i], ms, a[i], b[i] if i < len(b) else None, col)
            elif lines[i].startswith("x "):
                f = dict(t.split("=", 1) for t in a[i].split() if "=" in t)
                if f.get("viol", "0") != "0":
                    W, IN, OUT = (int(x) for x in lines[i].split()[1:4])
                    first = f.get("first", "-")
                    # re-run the first failing vector as an ordinary case to obtain the details
                    rc, o = ctx.run_exe(exe, input_text=f"q {W} {IN} {OUT} {first}\n")
                    v = [int(x) for x in first.split(",")] if first != "-" else []
                    oracle_line(ctx, f"q {W} {IN} {OUT} {first}", [{"kind": "exhaustive", "W": W, "IN": IN, "OUT": OUT, "v": v}], o.strip(), None, col)
                    nviol += 1
        col.flush(ctx)
        # the tie broke but nothing failed yet: search around the disagreeing cases with a larger budget
        if differing and not ctx.violations:
            r = ctx.rng.fork("c02-search")
            extra = []
            for i in differing[:40]:
                if not lines[i].startswith("q "):
                    continue
                toks = lines[i].split()
                W = int(toks[1])
                L = (1 << (W - 1)) - 1
                for _ in range(60):
                    parts, ms = [], []
                    for k in range(2, len(toks) - 2, 3):
                        IN, OUT = int(toks[k]), int(toks[k + 1])
                        v = [] if toks[k + 2] == "-" else [int(x) for x in toks[k + 2].split(",")]
                        for _ in range(r.range(1, 6)):
                            if v:
                                v[r.below(len(v))] = r.choice([-L, 0, L, r.range(-128, 127)])
                        parts.append(f"{IN} {OUT} {csv(v)}")
                        ms.append({"kind": "search", "W": W, "IN": IN, "OUT": OUT, "v": v})
                    extra.append((f"q {W} " + " ".join(parts), ms))
            if extra:
                rc, o = ctx.run_exe(exe, input_text="\n".join(e[0] for e in extra) + "\n", timeout=1200)
                for (line, ms), res in zip(extra, o.strip("\n").split("\n")):
                    ctx.case(line)
                    ctx.count("search-around-disagreement")
                    oracle_line(ctx, line, ms, res, None, col)
                col.flush(ctx)

    if ctx.tier == "thorough":
        from vlib import sh
        rc, out = sh(["timeout", "1500", "coqchk", "-o", "-silent", "-Q", ".", "M17", "M17.Properties_C02"], cwd=COQ, timeout=1600)
        ctx.coverage["coqchk"] = " ".join(out.split())[-400:]
        if rc != 0 or "Axioms: <none>" not in " ".join(out.split()):
            ctx.broken.append(("proof", "coqchk", " ".join(out.split())[-400:]))
    ctx.notes.append("interpretation: the decoder minimises over all IN/2-bit inputs (free tail); 'optimal among zero-terminated code words' is "
                     "refuted by c02_viterbi_terminated_ml_refuted (W=4, IN=12, OUT=2, r=[5,-3,7,-3,0,7,0,7,7,5,-7,0]: returns 11, whose "
                     "terminated code word is at distance 60 while 01 is at 52) - an interpretation note, not a violation")
    ctx.notes.append("free distances computed in Coq for (IN,OUT) with a free tail: " +
                     ", ".join(f"{k}: {v}" for k, v in sorted(dfree.items())) +
                     " (the last payload bits are protected only by the code bits that follow them; 16 bits before the end the values are 4,6,5,6)")
