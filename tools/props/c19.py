"""C19 — DSP primitives equal their definitions; the RRC filter pair is ISI-free.

Correspondence: the C++ float and double instantiations of BaseFirFilter / BaseIirFilter / SlidingDFT / NSlidingDFT
(harness/c19.cpp, real headers and real tap arrays) against the extracted exact models (ImplDSP over Z and Qc),
within the stated rounding tolerances.  Property oracle on the real code: the defining sums (convolution, difference
equation, direct DFT of the window) evaluated independently in long double inside the harness on the full run, the
extracted Spec on a prefix, and the exact (rational) symmetry / Nyquist / consistency statements evaluated on the C++
arrays themselves.
"""
import math
import os
import re
from concurrent.futures import ThreadPoolExecutor
from fractions import Fraction

from vlib import COQ, VERIF, AnchorError

PROPERTY = "C19"
CONSTS = ["taps", "dsp"]
COQ_TARGETS = ["Properties_C19.vo", "Extract_C19.vo"]
PROPERTIES_FILE = "Properties_C19.v"
LEVEL = "proof"
RULE = ("FIR: 150-tap Taps<double>/Taps<float>/m17-mod tables and small asymmetric dyadic tap sets (N in 1,2,3,4,7,16,33), "
        "float and double, inputs impulse/step/tone/alternating/random as dyadic rationals k/2^q, with and without reset() in mid-run, "
        "lengths 1..10^4 (10^6 thorough); IIR: Correlator b/a (float, double), m17-mod evm_b/evm_a, small dyadic sets (N in 1,2,3,5); "
        "sliding DFT: SlidingDFT N=48,24,8,5 and NSlidingDFT as built by M17Demodulator (N=120, 2400/3600 Hz) and a 16-point/3-bin "
        "one.  A case is non-trivial if some sample is non-zero; distinct by content.  Exact model on a prefix (`emit`) of every run, "
        "long-double defining sum on the whole run.")
ASSUMPTIONS = [
    "exact-arithmetic proof: the theorems hold over every commutative ring; floating-point rounding is NOT verified, only tested "
    "within tolerance (FIR: float N*2^-20*max|x|*sum|taps|, double 2^-45*max|x|*sum|taps|; IIR: float N*2^-20*S, double N*2^-49*S "
    "with S = max|w_n|*max(1,sum|b|), w the direct-form-II state; sliding DFT: (u+|1-rho|)*N*(4+n)*max|x|, u = 2^-24 / 2^-53)",
    "model = hand-written ImplDSP.v; tie = differential run on the cases of this run + regenerated tap tables / coefficients "
    "(exact rationals of the literals) cross-checked against the compiled arrays",
    "the sliding-DFT coefficient std::exp(-j*2*pi*f/SampleRate) is a parameter of the model (taken from the C++ object through its "
    "API: response to a unit sample); that it approximates the N-th root of unity is tested, not proved",
    "M17Modulator's 79-tap table is a function-local static: its exact value is tied by the translator only; the compiled table is "
    "observed through symbols_to_baseband() to within 1/(25*127)",
]
TRUSTED = ["long double arithmetic of g++/x86-64 for the in-harness oracles; Python fractions for the exact comparisons"]


# --------------------------------------------------------------------------------------------- helpers
def fx(s):
    """C99 hex float -> exact Fraction (inputs are float/double values)"""
    return Fraction(float.fromhex(s))


def approx(s):
    """long double hex float -> float (tolerances / diagnostics only)"""
    try:
        return float.fromhex(s)
    except (ValueError, OverflowError):
        return float("inf")


def hq(s):
    n, d = s.split("/")
    return Fraction(int(n, 16), int(d, 16))


def fields(line):
    """'a=1 b=2 y=...' -> dict (first token may be a bare tag)"""
    d = {}
    for tok in line.split():
        if "=" in tok:
            k, v = tok.split("=", 1)
            d[k] = v
    return d


def build_model(ctx):
    ctx.model = ctx.build_ocaml("c19_driver", [COQ / "c19_model.mli", COQ / "c19_model.ml", VERIF / "ocaml" / "c19_driver.ml"])


def run_model(ctx, lines, jobs=14):
    """run the extracted model on many cases, one process per case, longest first; returns outputs in order"""
    if not getattr(ctx, "model", None) or not lines:
        return [None] * len(lines)

    def cost(l):
        t = l.split(" ", 4)
        if t[0] in ("fir", "firspec"):
            return len(l) * (150 if t[1] in ("rxd", "rxf", "mod", "mtr") else 10)
        return 400000 if t[0] in ("sdft", "nsdft", "iir", "iirspec") else len(l)

    def work(i):
        rc, out = ctx.run_exe(ctx.model, input_text=lines[i] + "\n", timeout=3000)
        res = out.strip("\n").split("\n") if out.strip() else []
        if rc != 0 or len(res) != 1:
            return i, None, f"rc={rc} case={lines[i][:80]!r} tail={out[-200:]!r}"
        return i, res[0], None

    outs = [None] * len(lines)
    order = sorted(range(len(lines)), key=lambda i: -cost(lines[i]))
    with ThreadPoolExecutor(max_workers=jobs) as ex:
        for i, r, err in ex.map(work, order):
            if err:
                ctx.tie_broken("c19-model-run", err)
            outs[i] = r
    return outs


# --------------------------------------------------------------------------------------------- input generators
def gen_input(r, kind, n, amp, period=20):
    if kind == "impulse":
        p = r.below(min(n, 40))
        return [amp if i == p else 0 for i in range(n)]
    if kind == "step":
        p = r.below(min(n, 20))
        return [0 if i < p else amp for i in range(n)]
    if kind == "tone":
        ph = r.below(period)
        return [int(round(amp * math.cos(2 * math.pi * (i + ph) / period))) for i in range(n)]
    if kind == "alt":
        return [amp if i % 2 == 0 else -amp for i in range(n)]
    if kind == "random":
        raw = r.bytes(2 * n)
        return [((raw[2 * i] | (raw[2 * i + 1] << 8)) % (2 * amp + 1)) - amp for i in range(n)]
    raise ValueError(kind)


class Case:
    def __init__(self, prim, T, what, q, n, emit, xs, kind, reset=-1, extra=None):
        self.prim, self.T, self.what, self.q, self.n, self.emit, self.xs, self.kind, self.reset = prim, T, what, q, n, emit, xs, kind, reset
        self.extra = extra or {}

    def key(self):
        return f"{self.prim} {self.T} {self.what} q={self.q} n={self.n} reset={self.reset} kind={self.kind} h={hash(tuple(self.xs)) & 0xffffffff:08x}"

    def ks(self):
        return " ".join(map(str, self.xs))


CUSTOM_TAPS = [
    (0, [1]), (1, [3, -1]), (2, [1, 2, 3]), (3, [5, -3, 2, 7]), (4, [1, -2, 3, -4, 5, -6, 7]),
    (5, [31, -17, 5, 9, -23, 11, 2, -8, 14, 3, -29, 6, 19, -1, 12, -7]),
    (6, [((i * 37 + 11) % 101) - 50 for i in range(33)]),
]
CUSTOM_IIR = [   # (qc, b, a): well damped, dyadic coefficients (a_0 = 2^qc, i.e. 1)
    (0, [1], [1]), (1, [1, 1], [2, -1]), (2, [1, 2, 1], [4, -2, 1]), (3, [2, -3, 1], [8, 3, -2]),
    (3, [1, 2, 3, 2, 1], [8, -2, 1, 1, -1]), (2, [3, 0, -3], [4, 0, 2]),
]


def gen_cases(ctx, dsp):
    r = ctx.rng.fork("c19")
    thorough = ctx.tier == "thorough"
    long_n = 1000000 if thorough else 10000
    cases = []
    # ---- FIR, custom taps
    for T in "fd":
        for qt, taps in CUSTOM_TAPS:
            tbl = f"c:{qt}:" + ",".join(map(str, taps))
            for kind in ("impulse", "step", "random", "alt"):
                n = r.range(len(taps) + 1, 3 * len(taps) + 40)
                q = r.choice([0, 3, 7])
                xs = gen_input(r, kind, n, r.choice([1, 100, 127]))
                cases.append(Case("fir", T, tbl, q, n, n, xs, kind))
            # reset() in mid-run (history full of non-zero samples, pos_ anywhere)
            for _ in range(3 if thorough else 2):
                n = r.range(2 * len(taps) + 2, 4 * len(taps) + 30)
                xs = gen_input(r, "random", n, 127)
                cases.append(Case("fir", T, tbl, 7, n, n, xs, "random+reset", reset=r.range(1, n - 1)))
    # ---- FIR, the repository's tables
    for T, tbl in (("d", "rxd"), ("f", "rxf"), ("d", "mod")):
        for kind, n, amp, q in (("impulse", 400, 1, 0), ("impulse", 400, 32767, 15), ("step", 500, 1000, 0), ("tone", 2000, 127, 7),
                                ("alt", 600, 3, 0), ("random", 1500, 127, 7)):
            cases.append(Case("fir", T, tbl, q, n, n, gen_input(r, kind, n, amp), kind))
        n = 1200
        cases.append(Case("fir", T, tbl, 15, n, n, gen_input(r, "random", n, 32767), "random+reset", reset=r.range(100, 900)))
        # the long run: model on a prefix, long-double convolution on all of it
        emit = (100000 if thorough else 10000) if tbl != "mod" else (10000 if thorough else 2000)
        cases.append(Case("fir", T, tbl, 15, long_n, emit, gen_input(r, "random", long_n, 32767), "random-long"))
    # ---- IIR
    for T in "fd":
        for qc, b, a in CUSTOM_IIR:
            coef = f"c:{qc}:" + ",".join(map(str, b)) + ":" + ",".join(map(str, a))
            for kind in ("impulse", "step", "random"):
                n = r.range(20, 120)
                cases.append(Case("iir", T, coef, r.choice([0, 7]), n, n, gen_input(r, kind, n, r.choice([1, 100])), kind))
    # exact values grow by one coefficient mantissa per step and Qc addition is quadratic in the size: short prefixes
    for T, coef, emit in (("d", "corrd", 60 if thorough else 40), ("f", "corrf", 130 if thorough else 80), ("d", "evm", 60 if thorough else 40)):
        for kind, n, amp, q in (("impulse", 2000, 1, 0), ("step", 3000, 1000, 0), ("tone", 3000, 127, 7), ("random", long_n, 32767, 15)):
            cases.append(Case("iir", T, coef, q, n, emit, gen_input(r, kind, n, amp), kind))
    # ---- sliding DFT
    gaps = {"d": dsp["gap_d"], "f": dsp["gap_f"]}
    dcd = f"dcd:{dsp['dcd_N']}:{dsp['dcd_sr']}:" + ",".join(map(str, dsp["dcd_freqs"]))
    cfgs = [("s48", 48, 16, True), ("s24", 24, 8, True), ("s8", 8, 4, True), ("s5", 5, 5, True), (dcd, dsp["dcd_N"], 20, False), ("n16", 16, 4, False)]
    for T in "fd":
        emit = (60 if T == "d" else 130) if thorough else (36 if T == "d" else 72)
        budget = 3600 if thorough else 2000
        for cfg, N, period, damped in cfgs:
            gap = gaps[T] if damped else 0.0
            for kind, n, amp, q in (("impulse", 3 * N + 10, 1, 0), ("step", 4 * N, 1000, 0), ("tone", 6 * N, 127, 7), ("random", 5 * N, 127, 7)):
                cases.append(Case("sdft", T, cfg, q, n, min(emit, n), gen_input(r, kind, n, amp, period), kind, extra={"gap": gap, "N": N, "budget": budget}))
            cases.append(Case("sdft", T, cfg, 15, long_n, emit, gen_input(r, "random", long_n, 32767), "random-long", extra={"gap": gap, "N": N, "budget": budget}))
            cases.append(Case("sdft", T, cfg, 7, long_n // 10, emit, gen_input(r, "tone", long_n // 10, 127, period), "tone-long", extra={"gap": gap, "N": N, "budget": budget}))
    return cases


def harness_line(c, upto=None):
    """the case as the harness reads it; `upto` keeps only the first samples (a failure at n depends on x_0..x_n only)"""
    ks = c.ks() if upto is None else " ".join(map(str, c.xs[:upto]))
    emit = c.emit if upto is None else 0
    if c.prim == "fir":
        return f"fir {c.T} {c.what} {c.q} {c.reset} {emit} {ks}"
    if c.prim == "iir":
        return f"iir {c.T} {c.what} {c.q} {emit} {ks}"
    return f"sdft {c.T} {c.what} {c.q} {emit} {float(c.extra['gap']).hex()} {ks}"


def dyadic(fr):
    """Fraction with power-of-two denominator -> (mantissa, exponent)"""
    d = fr.denominator
    assert d & (d - 1) == 0
    return fr.numerator, d.bit_length() - 1


def model_line(c, h):
    """driver line for the exact model (needs the harness output for the sliding-DFT coefficient)"""
    pre = " ".join(map(str, c.xs[:c.emit]))
    if c.prim == "fir":
        tbl = c.what
        qt = 0
        if tbl.startswith("c:"):
            _, qt, m = tbl.split(":")
            tbl = "c:" + m
        return f"fir {tbl} {c.reset} {c.emit} {pre}", int(qt)
    if c.prim == "iir":
        return f"iir {c.what} {c.q} {c.emit} {pre}", 0
    f = fields(h)
    if "coeff" not in f:
        return None, 0
    coeffs = []
    for cc in f["coeff"].split(";"):
        re_, im_ = (fx(v) for v in cc.split(":"))
        coeffs.append(dyadic(re_) + dyadic(im_))
    N = c.extra["N"]
    # the exact values grow by one coefficient mantissa per step: bound the total size of the numbers
    bits = max(max(k[1], k[3]) for k in coeffs) or 1
    emit = max(min(c.emit, c.extra["budget"] // bits), min(c.emit, 12))
    pre = " ".join(map(str, c.xs[:emit]))
    if h.startswith("sdft"):     # SlidingDFT: damping = the regenerated FloatType(0.999999999999999) for this T
        return f"sdft {N} " + " ".join(map(str, coeffs[0])) + f" {c.T} {c.q} {emit} {pre}", 0
    return f"nsdft {N} {len(coeffs)} " + " ".join(" ".join(map(str, k)) for k in coeffs) + f" {c.q} {emit} {pre}", 0


# --------------------------------------------------------------------------------------------- tables
def table_checks(ctx, exe):
    """exact statements on the arrays of the compiled code (dumped by the harness) and on the literals"""
    from consts import taps as T
    try:
        lit = {name: vals for name, _, _, vals, _ in T.tables(ctx.repo)}
    except AnchorError as e:
        ctx.tie_broken("taps-translator", str(e))
        return
    arrays = {}
    if exe:
        rc, out = ctx.run_exe(exe, input_text="tables\nmtr 127\nmtr -128\nmtr 100\n")
        lines = out.strip().split("\n")
        if rc != 0 or len(lines) < 4:
            ctx.tie_broken("c19-harness-tables", f"rc={rc} {out[-200:]!r}")
        else:
            for tok in lines[0].split():
                k, v = tok.split("=", 1)
                arrays[k] = [fx(x) for x in v.split(",")]
            # translator vs the compiled arrays (exact)
            for hk, lk in (("rxd", "rx_double"), ("rxf", "rx_float"), ("mod", "tx_mod")):
                a, b = arrays.get(hk, []), lit[lk]
                ctx.case(f"table-tie {hk}")
                if a != b:
                    i = next((i for i in range(min(len(a), len(b))) if a[i] != b[i]), min(len(a), len(b)))
                    ctx.tie_broken("taps-translator-vs-compiled-array",
                                   f"{hk}: translator and compiled array differ at index {i} (lengths {len(b)}/{len(a)})")
            # the 79-tap table through symbols_to_baseband: int16(A * tap_n * 25)
            mtr = lit["tx_modulator"]
            for amp, l in zip((127, -128, 100), lines[1:4]):
                bb = [int(x) for x in fields(l).get("bb", "").split(",") if x]
                ctx.case(f"mtr-observe {amp}")
                for n in range(min(len(bb), 120)):
                    want = amp * 25 * (mtr[n] if n < len(mtr) else 0)
                    if abs(bb[n] - want) > 1:
                        ctx.violation("mtr-table-differs", "M17Modulator::symbols_to_baseband impulse response is not the 79-tap table",
                                      {"symbol_amplitude": amp, "sample": n, "expected_about": float(want), "actual": bb[n]})
                        break
    # the property itself, exactly, on the compiled arrays where they can be read (else on the literals)
    tabs = {"rx_double": arrays.get("rxd", lit["rx_double"]), "rx_float": arrays.get("rxf", lit["rx_float"]),
            "tx_mod": arrays.get("mod", lit["tx_mod"]), "tx_modulator": lit["tx_modulator"]}
    src = {"rx_double": "M17Demodulator.h detail::Taps<double>::rrc_taps", "rx_float": "M17Demodulator.h detail::Taps<float>::rrc_taps",
           "tx_mod": "apps/m17-mod.cpp rrc_taps", "tx_modulator": "M17Modulator.h symbols_to_baseband rrc_taps"}
    peaks = {}
    for name, t in tabs.items():
        ctx.case(f"symmetry {name}")
        p = max(range(len(t)), key=lambda i: t[i])
        peaks[name] = p
        for i in range(len(t)):
            mirror = t[2 * p - i] if 0 <= 2 * p - i < len(t) else Fraction(0)
            if t[i] != mirror:
                ctx.violation("rrc-table-asymmetric", f"{src[name]} is not symmetric about its peak",
                              {"table": src[name], "peak_index": p, "index": i, "value": float(t[i]), "value_exact": str(t[i]),
                               "mirror_index": 2 * p - i, "mirror_value": float(mirror), "mirror_exact": str(mirror)})
                break
    # consistency of the copies
    ctx.case("tables-consistent")
    a, b = tabs["tx_mod"], tabs["rx_double"]
    for i in range(max(len(a), len(b))):
        if i >= len(a) or i >= len(b) or a[i] != b[i]:
            ctx.violation("rrc-tables-inconsistent", "m17-mod rrc_taps and Taps<double>::rrc_taps differ",
                          {"index": i, "m17-mod": float(a[i]) if i < len(a) else None, "Taps<double>": float(b[i]) if i < len(b) else None})
            break
    a = tabs["rx_float"]
    for i in range(max(len(a), len(b))):
        if i >= len(a) or i >= len(b) or abs(a[i] - b[i]) * 2 ** 24 > abs(b[i]):
            ctx.violation("rrc-tables-inconsistent", "Taps<float> entry is not the float rounding of the Taps<double> entry",
                          {"index": i, "Taps<float>": float(a[i]) if i < len(a) else None, "Taps<double>": float(b[i]) if i < len(b) else None})
            break
    a = tabs["tx_modulator"]
    off = peaks["rx_double"] - peaks["tx_modulator"]
    for i in range(len(a)):
        j = i + off
        if not (0 <= j < len(b)) or a[i] != b[j]:
            ctx.violation("rrc-tables-inconsistent", "M17Modulator 79-tap table is not the centre of the 150-tap table",
                          {"index": i, "M17Modulator": float(a[i]), "Taps<double>_index": j, "Taps<double>": float(b[j]) if 0 <= j < len(b) else None})
            break
    # Nyquist criterion on the four cascades (exact rationals); cross-checked with the extracted Spec's convolution
    sps = 10
    spec = {}
    if getattr(ctx, "model", None):
        pairs = [("mod", "rxd"), ("mod", "rxf"), ("mtr", "rxd"), ("mtr", "rxf")]
        outs = run_model(ctx, [f"cascade {a} {b}" for a, b in pairs], jobs=4)
        for (a, b), o in zip(pairs, outs):
            if o and o.startswith("e="):
                f = fields(o)
                e = int(f["e"])
                spec[(a, b)] = [Fraction(int(v, 16), 2 ** e) for v in f["y"].split(",")]
    short = {"tx_mod": "mod", "tx_modulator": "mtr", "rx_double": "rxd", "rx_float": "rxf"}
    ratios = {}
    for tx in ("tx_mod", "tx_modulator"):
        for rx in ("rx_double", "rx_float"):
            A, B = tabs[tx], tabs[rx]
            c = [Fraction(0)] * (len(A) + len(B) - 1)
            for i, x in enumerate(A):
                if x:
                    for j, y in enumerate(B):
                        c[i + j] += x * y
            ctx.case(f"nyquist {tx} {rx}")
            sp = spec.get((short[tx], short[rx]))
            if sp is not None and sp != c:
                i = next((i for i in range(min(len(sp), len(c))) if sp[i] != c[i]), -1)
                ctx.tie_broken("cascade-spec-vs-compiled-arrays", f"{tx}*{rx}: extracted Spec convolution of the regenerated constants differs "
                               f"from the convolution of the compiled arrays at index {i}")
            p = max(range(len(c)), key=lambda i: c[i])
            side = [(i, abs(c[i]) / c[p]) for i in range(p % sps, len(c), sps) if i != p]
            worst = max(side, key=lambda t: t[1])
            total = sum(s for _, s in side)
            ratios[f"{tx}*{rx}"] = {"peak_index": p, "worst_side_tap_index": worst[0], "worst_side_tap_%": round(float(worst[1]) * 100, 5),
                                    "side_tap_sum_%": round(float(total) * 100, 5)}
            if p != peaks[tx] + peaks[rx] or worst[1] >= Fraction(5, 1000) or total >= Fraction(2, 100):
                ctx.violation("rrc-cascade-not-nyquist", f"cascade {src[tx]} * {src[rx]} violates the symbol-spaced side-tap bounds",
                              {"tx": src[tx], "rx": src[rx], "peak_index": p, "expected_peak_index": peaks[tx] + peaks[rx],
                               "worst_side_tap_index": worst[0], "worst_side_tap_ratio": float(worst[1]), "limit_ratio": 0.005,
                               "side_tap_sum_ratio": float(total), "limit_sum": 0.02})
    ctx.coverage["cascade_side_taps"] = ratios
    ctx.sample({"cascade_side_taps": ratios})
    # IIR coefficient arrays: translator vs compiled, a_0 = 1
    if arrays:
        from consts import dsp as D
        for name in ("corrd_a", "corrf_a", "evm_a"):
            ctx.case(f"iir-a0 {name}")
            if arrays.get(name) and arrays[name][0] != 1:
                ctx.violation("iir-a0-not-one", f"{name}[0] is not 1: the filter does not realise the stated difference equation",
                              {"array": name, "a0": float(arrays[name][0])})


def dsp_constants(ctx):
    """numbers the cases need, read by the translator from the repository (same source as ConstsDsp.v)"""
    from consts import dsp as D
    text = D.generate(ctx.repo)

    def grab(name):
        m = re.search(r"Definition %s_exp : N := (\d+)%%N\.\nDefinition %s_mant : list Z := \[([^\]]*)\]" % (name, name), text)
        return [Fraction(int(v.strip("() ")), 2 ** int(m.group(1))) for v in m.group(2).split(";")]
    sr = int(re.search(r"dcd_sample_rate : N := (\d+)", text).group(1))
    acc = int(re.search(r"dcd_accuracy : N := (\d+)", text).group(1))
    fr = [int(v) for v in re.search(r"dcd_freqs : list N := \[([^\]]*)\]", text).group(1).split(";")]
    return {"gap_d": float(abs(1 - grab("sdft_rho_double")[0])), "gap_f": float(abs(1 - grab("sdft_rho_float")[0])),
            "dcd_sr": sr, "dcd_N": sr // acc, "dcd_freqs": fr}


# --------------------------------------------------------------------------------------------- run
def window(xs, n, width):
    lo = max(0, n - width + 1)
    return {"first_index": lo, "samples": xs[lo:n + 1]}


def compare_case(ctx, c, h, m, qt):
    """h: harness line, m: model line.  Records oracle violations and correspondence breaks."""
    f = fields(h)
    if "bad" not in f:
        ctx.tie_broken("c19-harness-output", f"{c.key()}: {h[:200]}")
        return
    N = int(f["N"])
    scale = Fraction(1, 2 ** c.q)
    # (ii) property oracle: the defining sum in long double, over the whole run
    if int(f["bad"]) >= 0:
        n = int(f["bad"])
        names = {"fir": ("fir-not-convolution", "FIR output differs from the convolution sum of its input with the taps"),
                 "iir": ("iir-not-difference-equation", "IIR output differs from the difference equation"),
                 "sdft": ("sdft-not-dft", "sliding DFT magnitude differs from the direct DFT of the last N samples")}
        key, text = names[c.prim]
        if c.prim == "fir" and c.reset >= 0 and n >= c.reset:
            key, text = "fir-reset-not-zero-state", "FIR output after reset() differs from that of a fresh filter"
        ctx.violation(key, text, {"case": harness_line(c, upto=n + 1),
                                  "instantiation": {"f": "float", "d": "double"}[c.T], "what": c.what, "input_kind": c.kind,
                                  "sample_index": n, "reset_before_index": c.reset if c.reset >= 0 else None,
                                  "input_scale": f"2^-{c.q}", "input_window_integers": window(c.xs, n, max(N, 4)),
                                  "expected": approx(f.get("exp", "nan")), "actual": approx(f.get("act", "nan")), "tolerance": approx(f.get("tol", "nan")),
                                  "bin": f.get("bin")})
    # (i) correspondence with the exact model on the prefix
    if m is None:
        return
    mf = fields(m)
    if "y" not in mf or "y" not in f:
        ctx.tie_broken("c19-model-output", f"{c.key()}: model printed {m[:120]!r}")
        return
    if c.prim == "fir":
        e = int(mf["e"]) + qt + c.q
        my = [Fraction(int(v, 16), 2 ** e) for v in mf["y"].split(",")]
        iy = [fx(v) for v in f["y"].split(",")]
        tol = Fraction(approx(f["tol"]))
        bad = [i for i in range(min(len(my), len(iy))) if abs(my[i] - iy[i]) > tol]
        if len(my) != len(iy) or bad:
            i = bad[0] if bad else min(len(my), len(iy))
            ctx.tie_broken("fir-impl-vs-model", f"{c.key()}: at n={i} impl={float(iy[i]) if i < len(iy) else None} "
                           f"model={float(my[i]) if i < len(my) else None} tol={float(tol)}")
    elif c.prim == "iir":
        my = [hq(v) for v in mf["y"].split(",")]
        iy = [fx(v) for v in f["y"].split(",")]
        tol = Fraction(approx(f["tol"]))
        bad = [i for i in range(min(len(my), len(iy))) if abs(my[i] - iy[i]) > tol]
        if len(my) != len(iy) or bad:
            i = bad[0] if bad else min(len(my), len(iy))
            ctx.tie_broken("iir-impl-vs-model", f"{c.key()}: at n={i} impl={float(iy[i]) if i < len(iy) else None} "
                           f"model={float(my[i]) if i < len(my) else None} tol={float(tol)}")
    else:
        u = Fraction(1, 2 ** 24) if c.T == "f" else Fraction(1, 2 ** 53)
        u += Fraction(c.extra["gap"])
        maxx = max(abs(x) for x in c.xs) * scale
        my = [[tuple(hq(p) for p in b.split(":")) for b in v.split(";")] for v in mf["y"].split(",")]
        iy = [[tuple(fx(p) for p in b.split(":")) for b in v.split(";")] for v in f["y"].split(",")]
        if not my or len(my) > len(iy):
            ctx.tie_broken("sdft-impl-vs-model", f"{c.key()}: {len(iy)} outputs vs {len(my)}")
            return
        for n in range(len(my)):
            tol = u * N * (4 + n) * maxx
            for k in range(len(my[n])):
                d = max(abs(my[n][k][0] - iy[n][k][0]), abs(my[n][k][1] - iy[n][k][1]))
                if d > tol:
                    ctx.tie_broken("sdft-impl-vs-model", f"{c.key()}: at n={n} bin={k} impl=({float(iy[n][k][0])},{float(iy[n][k][1])}) "
                                   f"model=({float(my[n][k][0])},{float(my[n][k][1])}) tol={float(tol)}")
                    return


def spec_checks(ctx, exe, cases, houts):
    """expected values from the extracted *Spec* (SpecDSP.conv_at, the difference equation, dft_bin) on short prefixes"""
    lines, meta = [], []
    for c, h in zip(cases, houts):
        if h is None or c.kind.endswith("long"):
            continue
        if c.prim == "fir" and c.reset < 0:
            tbl, qt = c.what, 0
            if tbl.startswith("c:"):
                _, qt, mm = tbl.split(":")
                tbl = "c:" + mm
            emit = min(c.emit, 300 if c.what.startswith("c:") else 160)
            lines.append(f"firspec {tbl} {emit} " + " ".join(map(str, c.xs[:emit])))
            meta.append((c, h, int(qt)))
        elif c.prim == "iir" and c.what.startswith("c:"):
            emit = min(c.emit, 60)
            lines.append(f"iirspec {c.what} {c.q} {emit} " + " ".join(map(str, c.xs[:emit])))
            meta.append((c, h, 0))
        elif c.prim == "sdft" and c.what == "s8" and c.n >= 8:
            # N = 8, f/SampleRate = 1/4: the ideal coefficient is exactly -i; Spec bin with twiddle (-i)^(N-1) = +i
            for n in (7, 8, min(c.emit, c.n) - 1):
                if n >= 7:
                    lines.append(f"dft 0 0 1 0 {c.q} " + " ".join(map(str, c.xs[n - 7:n + 1])))
                    meta.append((c, h, n))
    outs = run_model(ctx, lines)
    for (c, h, aux), o in zip(meta, outs):
        if o is None or "y" not in fields(o):
            continue
        f, sf = fields(h), fields(o)
        ctx.case("spec " + c.key())
        tol = Fraction(approx(f["tol"])) if "tol" in f else None
        if c.prim == "fir":
            e = int(sf["e"]) + aux + c.q
            sy = [Fraction(int(v, 16), 2 ** e) for v in sf["y"].split(",")]
            iy = [fx(v) for v in f["y"].split(",")]
            for n in range(min(len(sy), len(iy))):
                if abs(sy[n] - iy[n]) > tol:
                    ctx.violation("fir-not-convolution", "FIR output differs from the specification's convolution sum",
                                  {"case": harness_line(c)[:3000], "sample_index": n, "expected_exact": str(sy[n]), "expected": float(sy[n]),
                                   "actual": float(iy[n]), "tolerance": float(tol)})
                    break
        elif c.prim == "iir":
            sy = [hq(v) for v in sf["y"].split(",")]
            iy = [fx(v) for v in f["y"].split(",")]
            for n in range(min(len(sy), len(iy))):
                if abs(sy[n] - iy[n]) > tol:
                    ctx.violation("iir-not-difference-equation", "IIR output differs from the specification's difference equation",
                                  {"case": harness_line(c)[:3000], "sample_index": n, "expected": float(sy[n]), "actual": float(iy[n]), "tolerance": float(tol)})
                    break
        else:
            n = aux
            re_, im_ = (hq(p) for p in sf["y"].split(":"))
            ys = f["y"].split(",")
            if n < len(ys):
                a, b = (fx(p) for p in ys[n].split(":"))
                u = (Fraction(1, 2 ** 24) if c.T == "f" else Fraction(1, 2 ** 53)) + Fraction(c.extra["gap"])
                t = u * 8 * (4 + n) * max(abs(x) for x in c.xs) / 2 ** c.q
                if max(abs(a - re_), abs(b - im_)) > t:
                    ctx.violation("sdft-not-dft", "SlidingDFT<.,8,2,1> output differs from the specification's DFT bin (twiddle w^(N-1))",
                                  {"case": harness_line(c)[:3000], "sample_index": n, "expected": [float(re_), float(im_)], "actual": [float(a), float(b)],
                                   "tolerance": float(t)})


def coefficient_check(ctx, c, h):
    """the coefficient observed through the API approximates exp(-2 pi i f/SampleRate) (tested, not proved)"""
    f = fields(h)
    if "coeff" not in f:
        return
    spec = {"s48": [(3000, 48000)], "s24": [(6000, 48000)], "s8": [(2, 8)], "s5": [(1, 5)], "n16": [(1, 16), (4, 16), (7, 16)]}
    if c.what.startswith("dcd:"):
        _, N, sr, fr = c.what.split(":")
        fl = [(int(v), int(sr)) for v in fr.split(",")]
    else:
        fl = spec[c.what]
    u = 2.0 ** -21 if c.T == "f" else 2.0 ** -50
    for (fq, sr), cc in zip(fl, f["coeff"].split(";")):
        re_, im_ = (float.fromhex(v) for v in cc.split(":"))
        ang = -2 * math.pi * fq / sr
        if abs(re_ - math.cos(ang)) > u or abs(im_ - math.sin(ang)) > u:
            ctx.violation("sdft-coefficient", "sliding-DFT coefficient is not exp(-2 pi i f/SampleRate)",
                          {"config": c.what, "instantiation": c.T, "frequency": fq, "sample_rate": sr, "actual": [re_, im_],
                           "expected": [math.cos(ang), math.sin(ang)]})


def damping_probe(ctx, exe, dsp):
    """SlidingDFT's per-step damping, measured on the real code: an impulse through the DC bin (coefficient exactly 1) of a
    4800-sample window decays as rho^(k+1).
    rho is FloatType(0.999999999999999): exactly 1 in float, 1 - 1.0e-15 (rounded) in double.  Independent of how the source spells it."""
    if not exe:
        return
    for T, gap, tol in (("f", dsp["gap_f"], 1e-6), ("d", dsp["gap_d"], 5e-13)):
        rc, out = ctx.run_exe(exe, input_text=f"rho {T}\n", timeout=120)
        m = re.search(r"rho steps=(\d+) .*magld=([0-9.eE+-]+)", out)
        ctx.case(f"sdft-damping-{T}", True)
        ctx.count("sdft-damping-probe")
        if rc != 0 or not m:
            ctx.tie_broken("sdft-damping-probe", f"harness: rc={rc} {out[-200:]}")
            continue
        steps, mag = int(m.group(1)), float(m.group(2))
        want = (1.0 - float(gap)) ** steps
        if abs(mag - want) > tol:
            ctx.violation("sdft-damping", "SlidingDFT's output decays at another rate than the definition's damping factor FloatType(0.999999999999999) "
                          "(a persistent tone leaks away / the window never forgets)",
                          {"instantiation": "float" if T == "f" else "double", "impulse_response_magnitude_after_steps": steps, "measured": mag,
                           "expected": want, "tolerance": tol, "per_step_factor_measured": mag ** (1.0 / steps), "case": f"rho {T}"})


def run(ctx):
    import time
    t0 = time.time()
    exe = ctx.build_cpp("c19_harness", "c19.cpp", extra=(f"-I{ctx.repo}/apps",), libs=("-lcodec2", "-lboost_program_options"))
    if ctx.replay_in:
        return replay(ctx, exe)
    try:
        dsp = dsp_constants(ctx)
    except (AnchorError, AttributeError) as e:
        # same policy as vlib.Ctx.step_consts: an unreadable source falls back to the pinned tree's values; the runs below decide
        ctx.degraded.append(("props.c19.dsp_constants", str(e)))
        ctx.log(f"dsp constants could not be read from the current source ({e}); using the pinned tree's values")
        dsp = {"gap_d": 2.0 ** -50, "gap_f": 0.0, "dcd_sr": 48000, "dcd_N": 120, "dcd_freqs": [2400, 3600]}
    ctx.log(f"harness built at +{time.time() - t0:.1f}s")
    damping_probe(ctx, exe, dsp)
    table_checks(ctx, exe)
    ctx.log(f"table checks done at +{time.time() - t0:.1f}s")
    cases = gen_cases(ctx, dsp)
    hl = [harness_line(c) for c in cases]
    (ctx.workdir / "cases.txt").write_text("\n".join(hl) + "\n")
    houts = [None] * len(cases)
    if exe:
        # the harness is fast; split only to use a few cores on the 10^6-sample runs
        idx = list(range(len(cases)))
        parts = [idx[i::6] for i in range(6)]

        def work(part):
            rc, out = ctx.run_exe(exe, input_text="".join(hl[i] + "\n" for i in part), timeout=1800 if ctx.tier == "thorough" else 240)
            res = out.strip("\n").split("\n") if out.strip() else []
            return part, rc, res, out
        with ThreadPoolExecutor(max_workers=6) as ex:
            for part, rc, res, out in ex.map(work, parts):
                if rc != 0 or len(res) != len(part):
                    ctx.tie_broken("c19-harness-run", f"harness exited {rc} after {len(res)}/{len(part)} cases: {out[-300:]!r}")
                for i, r_ in zip(part, res):
                    houts[i] = r_
    ctx.log(f"{len(cases)} cases through the harness at +{time.time() - t0:.1f}s")
    ml, qts = [], []
    for c, h in zip(cases, houts):
        line, qt = model_line(c, h or "")
        ml.append(line)
        qts.append(qt)
    (ctx.workdir / "model_cases.txt").write_text("\n".join(x or "-" for x in ml) + "\n")
    have = [i for i, x in enumerate(ml) if x]
    mres = run_model(ctx, [ml[i] for i in have])
    ctx.log(f"exact model done at +{time.time() - t0:.1f}s")
    mouts = [None] * len(cases)
    for i, r_ in zip(have, mres):
        mouts[i] = r_
    for c, h, m, qt in zip(cases, houts, mouts, qts):
        ctx.case(c.key(), nontrivial=any(c.xs))
        ctx.count(f"{c.prim}/{c.T}/{c.kind}")
        ctx.count("len<=1000" if c.n <= 1000 else ("len<=10^4" if c.n <= 10000 else "len>10^4"))
        if h is None:
            continue
        if h.startswith("exception") or h == "?":
            ctx.tie_broken("c19-harness-exception", f"{c.key()}: {h[:200]}")
            # an exception thrown by the real code (std::array::at out of range) is a failure of the property on this input
            ctx.violation(f"{c.prim}-exception", "the primitive threw on a valid input", {"case": hl[cases.index(c)][:3000], "what": h[:200]})
            continue
        compare_case(ctx, c, h, m, qt)
        if c.prim == "sdft":
            coefficient_check(ctx, c, h)
    ctx.log(f"comparison done at +{time.time() - t0:.1f}s")
    spec_checks(ctx, exe, cases, houts)
    ctx.log(f"spec checks done at +{time.time() - t0:.1f}s")
    # a few written-out cases
    for c, h in list(zip(cases, houts))[:2] + [(c, h) for c, h in zip(cases, houts) if c.kind == "random-long"][:2]:
        if h:
            f = fields(h)
            ctx.sample({"case": c.key(), "harness": {k: f.get(k) for k in ("n", "N", "bad", "maxerr", "tol")}, "first_outputs": f.get("y", "")[:120]})
    worst = {}
    for c, h in zip(cases, houts):
        if h and "maxerr" in fields(h):
            k = f"{c.prim}/{c.T}"
            worst[k] = max(worst.get(k, 0.0), approx(fields(h)["maxerr"]))
    ctx.coverage["max_abs_deviation_from_long_double_defining_sum"] = worst
    ctx.coverage["model_prefix_note"] = (
        "the exact model is run on the first `emit` samples of each case: all of it for the short cases and for FIR runs up to 10^4 "
        "samples (10^5-sample prefix of the 10^6-sample runs, thorough); 40/80 (60/130 thorough) samples for the repository's "
        "double/float IIR coefficients and about 2000/(coefficient bits) (3600/.. thorough) samples for the sliding DFT, whose exact "
        "values grow by one coefficient mantissa per step.  The long-double defining sums cover every sample of every run "
        "(sliding DFT: every output below 4N, then every 97th and the last 2N).")


def replay(ctx, exe):
    import json
    rec = json.loads(open(ctx.replay_in).read())
    case = rec.get("replay", {}).get("case")
    if not case or not exe:
        ctx.log("replay file holds no harness case line (table finding?): re-running the table checks")
        table_checks(ctx, exe)
        return
    rc, out = ctx.run_exe(exe, input_text=case + "\n")
    ctx.log("replay: " + out[:600])
    f = fields(out)
    ctx.case("replay")
    if f.get("bad", "-1") != "-1":
        ctx.violation(rec.get("key", "replay"), rec.get("what", "replayed case fails"), {"case": case[:3000], "harness": out[:400]})
