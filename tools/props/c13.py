"""C13 — m17-mod emits exactly the specification's stream, continuously pulse-shaped.

Tie (a) process level: the real binary built from <repo>/apps/m17-mod.cpp on every run, fed generated audio; its stdout
against the extracted ImplMod (byte for byte in -b mode, +-1 LSB per sample in baseband mode), the model being fed the
Codec2 bytes that the harness computes with libcodec2 the way encode() calls it.
Tie (b) in-process: harness/c13.cpp includes m17-mod.cpp (main renamed, std::cout captured) and drives send_lsf,
make_data_frame, make_lich_segment, send_audio_frame, make_bert_frame on generated inputs vs the extracted ImplMod.
Oracle: the C++ output must equal the SPECIFICATION encoder's output (extracted SpecM17): bitstream byte for byte,
baseband = truncation of 7168 * (one continuous run of the filter over the whole symbol sequence) within +-1 LSB.
"""
import shutil
import struct
import subprocess
from vlib import COQ, VERIF, sh

PROPERTY = "C13"
CONSTS = ["crc", "mod"]
COQ_TARGETS = ["Properties_C13.vo", "Extract_C13.vo"]
PROPERTIES_FILE = "Properties_C13.v"
LEVEL = "proof"
RULE = ("in-process: send_lsf on every alphabet character as a 1-char source, random callsigns of length 1..9 over the alphabet, "
        "empty and non-empty destination, every CAN 0..15, plus a malformed stream (lower case / non-alphabet bytes; "
        "correspondence only); make_data_frame on FN 0,1,0x7FFF,0x8000,0xFFFF,random x random payloads; make_lich_segment on "
        "random segments, numbers 0..5 (and 6..255 correspondence only); whole stream frames; BERT frames on random 197-bit "
        "strings.  Process level: the real binary with audio of 0,1,319,320,321,1920,random samples (silence, tone, noise), "
        "-b / baseband / -i, callsigns and CAN varied; thorough adds more of each and a 32770-frame run (frame-number wrap). "
        "A case is non-trivial unless it is the empty-audio run; distinct by input line.")
ASSUMPTIONS = [
    "model = hand-written ImplMod.v; tie = differential run on the cases of this run + constants regenerated from apps/m17-mod.cpp and the headers",
    "codec2 is an oracle: the theorems hold for every function returning 8 bytes per call; the runs feed model and specification the bytes libcodec2 produced",
    "the queue delivers every sample once, in order (C15/C16); stdin is read to the end without a 3 s gap",
    "the double arithmetic of the FIR is modelled exactly (rationals), compared within +-1 LSB; int16 conversion never overflows (|y| <= 31625 for every symbol sequence)",
    "transmit()'s uninitialised audio buffer holds zeros in the process-level runs (fresh thread stack); it is an explicit input (audio0) of the model and the theorems",
]
TRUSTED = ["libcodec2 (only its 8-byte results are used)", "valgrind 3.19 (only to exhibit the read of the uninitialised audio buffer)"]

ALPHABET = " ABCDEFGHIJKLMNOPQRSTUVWXYZ0123456789-/."
FF = b"\xff"


def build_model(ctx):
    ctx.model = ctx.build_ocaml("c13_driver", [COQ / "c13_model.mli", COQ / "c13_model.ml", VERIF / "ocaml" / "c13_driver.ml"])


def hx(b):
    return bytes(b).hex() if len(b) else "-"


def shex(s):
    return s.encode("latin-1").hex() if s else "-"


def build_binary(ctx):
    exe = ctx.workdir / "m17-mod"
    cmd = ["g++", "-std=c++20", "-O2", "-DNDEBUG", f"-I{ctx.repo}/include/m17cxx", f"-I{ctx.repo}/include",
           f"{ctx.repo}/apps/m17-mod.cpp", "-o", str(exe), "-lcodec2", "-lboost_program_options", "-pthread"]
    rc, out = sh(cmd, timeout=600)
    (ctx.workdir / "m17-mod.build.log").write_text(out)
    if rc != 0:
        ctx.tie_broken("m17-mod-build", out[-1200:])
        return None
    return exe


def run_binary(exe, src, dest, can, mode, audio, timeout=600, wrapper=()):
    """mode: b = bitstream, B = baseband, I = baseband inverted.  Returns (rc, stdout bytes, stderr text)."""
    args = [*wrapper, str(exe), f"--src={src}", f"--can={can}"]
    if dest:
        args.append(f"--dest={dest}")
    if mode == "b":
        args.append("-b")
    if mode == "I":
        args.append("-i")
    try:
        p = subprocess.run(args, input=audio, stdout=subprocess.PIPE, stderr=subprocess.PIPE, timeout=timeout)
        return p.returncode, p.stdout, p.stderr.decode(errors="replace")
    except subprocess.TimeoutExpired:
        return 124, b"", "[timeout]"


# ----------------------------------------------------------------------------------------------- generators
def gen_callsign(r, n=None):
    n = r.range(1, 9) if n is None else n
    return "".join(r.choice(ALPHABET[1:] if i == 0 else ALPHABET) for i in range(n)).rstrip() or "A"


def gen_audio(r, n, kind):
    if kind == "silence":
        return bytes(2 * n)
    if kind == "tone":
        import math
        f = r.range(200, 3000)
        a = r.range(500, 30000)
        return b"".join(struct.pack("<h", int(a * math.sin(2 * math.pi * f * i / 8000.0))) for i in range(n))
    if kind == "extreme":
        return b"".join(struct.pack("<h", r.choice([-32768, 32767, 0, -1, 1])) for _ in range(n))
    return r.bytes(2 * n)


def inproc_cases(ctx, r):
    thorough = ctx.tier == "thorough"
    cases, has_spec = [], []

    def add(line, spec=True, kind=None):
        cases.append(line)
        has_spec.append(spec)
        if kind:
            ctx.count(kind)

    # send_lsf
    for ch in ALPHABET[1:]:
        add(f"lsf {r.below(16)} {shex(ch)} -", kind="lsf:single-char")
    for can in range(16):
        add(f"lsf {can} {shex(gen_callsign(r))} {shex(gen_callsign(r)) if can % 2 else '-'}", kind="lsf:every-can")
    for n in range(1, 10):
        add(f"lsf {r.below(16)} {shex(gen_callsign(r, n))} {shex(gen_callsign(r, r.range(1, 9)))}", kind="lsf:length")
    add(f"lsf 5 {shex('.........')} {shex('.........')}", kind="lsf:max-value")
    add(f"lsf 5 {shex('A B C')} {shex('BROADCAST')}", kind="lsf:length")
    for _ in range(1500 if thorough else 60):
        add(f"lsf {r.below(16)} {shex(gen_callsign(r))} {shex(gen_callsign(r)) if r.chance(2, 3) else '-'}", kind="lsf:random")
    for _ in range(60 if thorough else 15):     # malformed stream: bytes outside the alphabet (value 0 in the C++); no spec
        s = bytes(r.choice([r.range(1, 255), r.range(97, 122)]) for _ in range(r.range(1, 9))).decode("latin-1")
        add(f"lsf {r.below(16)} {shex(s)} -", spec=all(c in ALPHABET for c in s), kind="lsf:malformed")
    # make_data_frame
    for fn in (0, 1, 0x7FFE, 0x7FFF, 0x8000, 0x8001, 0xFFFF):
        add(f"data {fn} {hx(r.bytes(16))}", kind="data:edge-fn")
    add(f"data 0 {hx(bytes(16))}", kind="data:edge-fn")
    add(f"data 65535 {hx(FF * 16)}", kind="data:edge-fn")
    for _ in range(2000 if thorough else 80):
        add(f"data {r.below(65536)} {hx(r.bytes(16))}", kind="data:random")
    # make_lich_segment
    for n in range(6):
        add(f"lich {hx(r.bytes(5))} {n}", kind="lich:valid")
        add(f"lich {hx(bytes(5))} {n}", kind="lich:valid")
        add(f"lich {hx(FF * 5)} {n}", kind="lich:valid")
    for _ in range(2000 if thorough else 80):
        add(f"lich {hx(r.bytes(5))} {r.below(6)}", kind="lich:valid")
    for _ in range(40 if thorough else 10):
        add(f"lich {hx(r.bytes(5))} {r.range(6, 255)}", spec=False, kind="lich:number>5")
    # whole stream frames
    for _ in range(1500 if thorough else 60):
        fn = r.choice([r.below(65536), r.below(8), 0x7FFF, 0x8000 | r.below(0x8000)])
        add(f"frame {hx(r.bytes(30))} {r.below(6)} {fn} {hx(r.bytes(16))}", kind="frame")
    # BERT
    add(f"bert {hx(bytes(25))}", kind="bert")
    add(f"bert {hx(FF * 25)}", kind="bert")
    for _ in range(1000 if thorough else 40):
        add(f"bert {hx(r.bytes(25))}", kind="bert")
    return cases, has_spec


def process_cases(ctx, r, uninit_audio):
    thorough = ctx.tier == "thorough"
    cs = []
    kinds = ["silence", "tone", "noise", "extreme"]
    lengths = [0, 1, 319, 320, 321, 6 * 320]
    for i, n in enumerate(lengths):
        cs.append(("b", r.below(16), gen_callsign(r), gen_callsign(r) if i % 2 else "", n, kinds[i % 3 + (0 if n else 0)]))
    for _ in range(120 if thorough else 6):
        cs.append(("b", r.below(16), gen_callsign(r), gen_callsign(r) if r.chance(1, 2) else "", r.range(2, 4000 if thorough else 2200), r.choice(kinds)))
    if thorough:
        for can in range(16):
            cs.append(("b", can, gen_callsign(r), "", r.range(0, 700), r.choice(kinds)))
        cs.append(("b", 7, "W1AW/P-.9", "N0CALL", 20 * 320 + 17, "noise"))
    # baseband
    bb = [("B", 10, "AB1CD", "", 0, "silence"), ("I", 3, gen_callsign(r), gen_callsign(r), 321, "noise"),
          ("B", r.below(16), gen_callsign(r), "", 2 * 320, "tone"),
          # a partial FIRST frame is padded from the uninitialised buffer (known finding): its symbols are not predictable
          ("B", r.below(16), gen_callsign(r), gen_callsign(r), r.range(321, 639) if uninit_audio else r.range(1, 319), "extreme")]
    if thorough:
        for _ in range(40):
            n = r.range(0, 2600)
            if uninit_audio and 0 < n < 320:
                n += 320
            bb.append((r.choice("BI"), r.below(16), gen_callsign(r), gen_callsign(r) if r.chance(1, 2) else "", n, r.choice(kinds)))
    return cs + bb


def decode16(b):
    return struct.unpack("<%dh" % (len(b) // 2), b[:len(b) // 2 * 2])


def first_diff(a, b):
    for i, (x, y) in enumerate(zip(a, b)):
        if x != y:
            return i
    return min(len(a), len(b)) if len(a) != len(b) else None


def locate(byte_index):
    """which part of the bitstream a byte index falls in"""
    if byte_index < 48:
        return "preamble"
    if byte_index < 96:
        return "LSF frame" + (" sync word" if byte_index < 50 else "")
    k, off = divmod(byte_index - 96, 48)
    return f"stream frame {k}" + (" sync word" if off < 2 else f" byte {off}") + " (or EOT/padding if past the last frame)"


def run(ctx):
    thorough = ctx.tier == "thorough"
    r = ctx.rng.fork("c13")
    exe = ctx.build_cpp("c13_harness", "c13.cpp", extra=[f'-DM17_MOD_SOURCE="{ctx.repo}/apps/m17-mod.cpp"'],
                        libs=["-lcodec2", "-lboost_program_options"])
    binary = build_binary(ctx)
    model = getattr(ctx, "model", None)
    flags = {}
    if model:
        rc, out = ctx.run_exe(model, ["flags"])
        flags = dict(x.split("=") for x in out.split())
        ctx.coverage["model_flags_from_source"] = flags

    # ------------------------------------------------------------------ (b) in-process
    cases, has_spec = inproc_cases(ctx, r)
    text = "\n".join(cases) + "\n"
    (ctx.workdir / "inproc_cases.txt").write_text(text)
    impl_out = model_out = spec_out = ""
    if exe:
        rc, impl_out = ctx.run_exe(exe, input_text=text)
        if rc != 0:
            ctx.tie_broken("c13-harness-run", f"harness exited {rc}: {impl_out[-300:]}")
    if model:
        rc, model_out = ctx.run_exe(model, ["impl"], input_text=text)
        rc, spec_out = ctx.run_exe(model, ["spec"], input_text=text)
    for c in cases:
        ctx.case(c)
    if exe and model:
        ctx.diff_lines("inproc-impl-vs-model", cases, impl_out, model_out)
    a = impl_out.strip("\n").split("\n") if impl_out.strip() else []
    s = spec_out.strip("\n").split("\n") if spec_out.strip() else []
    if a:
        ctx.sample({"case": cases[0], "c++": a[0][:160]})
        ctx.sample({"case": cases[-1][:80], "c++": a[-1][:160]})
    what = {"lsf": ("lsf-differs-from-spec", "send_lsf: LSF bytes or LSF frame differ from the specification encoder"),
            "data": ("stream-payload-differs-from-spec", "make_data_frame differs from the specification (FN field, convolution, P2 puncture)"),
            "lich": ("lich-differs-from-spec", "make_lich_segment differs from the specification (chunk packing / Golay)"),
            "frame": ("stream-frame-differs-from-spec", "stream frame (sync, LICH, payload, interleave, randomize) differs from the specification"),
            "bert": ("bert-frame-differs-from-spec", "BERT frame differs from the specification")}
    seen = set()
    for i, c in enumerate(cases):
        if i >= len(a) or i >= len(s) or not has_spec[i]:
            continue
        if a[i] != s[i]:
            k = c.split()[0]
            if k in seen:
                continue
            seen.add(k)
            ctx.violation(what[k][0], what[k][1], {"input": c, "implementation": a[i], "specification": s[i]})

    # ------------------------------------------------------------------ (a) process level
    uninit_audio = flags.get("audio_zero_init") == "false"
    pcs = process_cases(ctx, r, uninit_audio)
    lines, real = [], []
    if binary and exe:
        for (mode, can, src, dest, n, kind) in pcs:
            audio = gen_audio(r, n, kind)
            ctx.count(f"run:{'bitstream' if mode == 'b' else 'baseband'}:{kind}:{'0' if n == 0 else '<320' if n < 320 else '>=320'}")
            rc, out, err = run_binary(binary, src, dest, can, mode, audio)
            if rc != 0:
                ctx.tie_broken("m17-mod-run", f"m17-mod exited {rc} on src={src!r} dest={dest!r} can={can} n={n}: {err[-200:]}")
                continue
            rc2, cod = ctx.run_exe(exe, input_text=f"codec {hx(audio)}\n")
            cod = cod.strip().split("=", 1)[-1]
            lines.append(f"run {mode} {can} {shex(src)} {shex(dest)} {hx(audio)} {cod}")
            real.append(out)
            ctx.case(lines[-1][:200] + str(len(lines)), nontrivial=(n > 0))
        ptext = "\n".join(lines) + "\n"
        (ctx.workdir / "process_cases.txt").write_text(ptext)
        m_out = sp_out = []
        if model and lines:
            rc, o = ctx.run_exe(model, ["impl"], input_text=ptext, timeout=3000)
            m_out = o.strip("\n").split("\n")
            rc, o = ctx.run_exe(model, ["spec"], input_text=ptext, timeout=3000)
            sp_out = o.strip("\n").split("\n")
        bad_tie, n_eot = [], 0
        viol_keys = set()
        for i, line in enumerate(lines):
            t = line.split()
            mode = t[1]
            desc = {"mode": {"b": "-b", "B": "baseband", "I": "baseband -i"}[mode], "can": int(t[2]),
                    "src": bytes.fromhex(t[3]).decode("latin-1") if t[3] != "-" else "",
                    "dest": bytes.fromhex(t[4]).decode("latin-1") if t[4] != "-" else "",
                    "audio_samples": 0 if t[5] == "-" else len(t[5]) // 4, "audio_int16le_hex": t[5][:4000], "codec2_bytes_hex": t[6][:2000]}
            mo = m_out[i][4:] if i < len(m_out) else None
            so = sp_out[i][4:] if i < len(sp_out) else None
            if mode == "b":
                rh = real[i].hex()
                partial_first = uninit_audio and 0 < desc["audio_samples"] < 320

                def same(x, y):
                    """equal, or (partial first frame, uninitialised buffer) equal wherever no Codec2 byte reaches"""
                    if not partial_first:
                        return x == y
                    return (len(x) == len(y) and x[:96] == y[:96] and x[-12:] == y[-12:]
                            and all(x[k:k + 2] == y[k:k + 2] for k in range(96, len(x) - 12, 48)))
                if mo is not None and all(ch in "0123456789abcdef" for ch in mo):
                    if not same(bytes.fromhex(mo), real[i]):
                        bad_tie.append((i, "bitstream differs", first_diff(bytes.fromhex(mo), real[i])))
                elif mo is not None:
                    bad_tie.append((i, "model printed " + mo[:40], None))
                if so is not None:
                    sb = bytes.fromhex(so)
                    d = first_diff(sb, real[i])
                    if not same(sb, real[i]) and "bitstream" not in viol_keys:
                        viol_keys.add("bitstream")
                        ctx.violation("mod-bitstream-differs-from-spec",
                                      "m17-mod -b output differs from the specification stream for the same LSF fields and Codec2 payloads",
                                      {**desc, "first_differing_byte": d, "where": locate(d) if d is not None else None,
                                       "length_real": len(real[i]), "length_spec": len(sb),
                                       "real_around": real[i][max(0, (d or 0) - 4):(d or 0) + 12].hex(), "spec_around": sb[max(0, (d or 0) - 4):(d or 0) + 12].hex()})
                    elif partial_first and so != rh and "uninit" not in viol_keys:
                        viol_keys.add("uninit")
                        ctx.violation("mod-partial-first-frame-uninit",
                                      "transmit(): `audio_frame_t audio;` is not initialised, so a partial FIRST frame (fewer than 320 samples in all) "
                                      "is padded with indeterminate stack content instead of zeros before it is handed to codec2_encode",
                                      {**desc, "first_differing_byte": d, "where": locate(d),
                                       "real_stream_frame_0": real[i][96:144].hex(), "specification_with_zero_padded_frame_0": sb[96:144].hex()})
            else:
                rs = decode16(real[i])
                if mo is not None and mo != "-":
                    ms = decode16(bytes.fromhex(mo))
                    if len(ms) != len(rs) or any(abs(x - y) > 1 for x, y in zip(ms, rs)):
                        j = next((k for k, (x, y) in enumerate(zip(ms, rs)) if abs(x - y) > 1), None)
                        bad_tie.append((i, "baseband differs by more than 1 LSB", j))
                if so is not None and so != "-":
                    ss = decode16(bytes.fromhex(so))
                    n_pre = len(ss) - 480
                    if len(ss) != len(rs) and "bb-len" not in viol_keys:
                        viol_keys.add("bb-len")
                        ctx.violation("mod-baseband-length", "baseband output has not the length of the shaped symbol stream",
                                      {**desc, "samples_real": len(rs), "samples_ideal": len(ss)})
                    j = next((k for k, (x, y) in enumerate(zip(ss[:n_pre], rs[:n_pre])) if abs(x - y) > 1), None)
                    if j is not None and "bb-pre" not in viol_keys:
                        viol_keys.add("bb-pre")
                        ctx.violation("mod-baseband-not-continuous",
                                      "baseband differs from one continuous run of the RRC filter (scale 7168) BEFORE the EOT block",
                                      {**desc, "first_bad_sample": j, "symbol_index": j // 10, "frame_index": j // 1920,
                                       "real": list(rs[j:j + 12]), "ideal": list(ss[j:j + 12])})
                    je = next((k for k, (x, y) in enumerate(zip(ss[n_pre:], rs[n_pre:])) if abs(x - y) > 1), None)
                    if je is not None:
                        n_eot += 1
                        worst = max(abs(x - y) for x, y in zip(ss[n_pre:], rs[n_pre:]))
                        if "bb-eot" not in viol_keys:
                            viol_keys.add("bb-eot")
                            ctx.violation("mod-eot-cold-filter",
                                          "baseband: the EOT block is rendered by a second, cold filter instance (symbols_to_baseband<48> vs <192>): "
                                          "the last 7.5 symbols of the final frame never leave the filter and the EOT block deviates from the continuous shaping",
                                          {**desc, "first_bad_sample_in_eot_block": je, "max_abs_deviation_lsb": worst,
                                           "real": list(rs[n_pre:n_pre + 16]), "ideal": list(ss[n_pre:n_pre + 16])})
        ctx.coverage["baseband_runs_with_eot_deviation"] = n_eot
        if bad_tie:
            i, why, pos = bad_tie[0]
            ctx.tie_broken("process-impl-vs-model", f"{len(bad_tie)} of {len(lines)} runs: {why} at {pos}; first: {lines[i][:160]}")
        if lines:
            ctx.sample({"run": lines[0][:120], "stdout_bytes": len(real[0]), "head": real[0][:60].hex()})
            ctx.sample({"run": lines[-1][:120], "stdout_bytes": len(real[-1])})

    # ------------------------------------------------------------------ BERT mode at process level (runs until interrupted: a prefix is read)
    if binary and model:
        nfr = 12 if thorough else 6
        def head(args, nbytes):
            p = subprocess.Popen([str(binary), "--src=BERT", *args], stdin=subprocess.DEVNULL, stdout=subprocess.PIPE, stderr=subprocess.DEVNULL)
            try:
                buf = b""
                while len(buf) < nbytes:
                    chunk = p.stdout.read(nbytes - len(buf))
                    if not chunk:
                        break
                    buf += chunk
                return buf
            finally:
                p.kill()
                p.wait()
        bs = head(["-B", "-b"], 48 * (2 + nfr))
        ctx.case("bert-process-bitstream", nontrivial=len(bs) == 48 * (2 + nfr))
        if len(bs) != 48 * (2 + nfr):
            ctx.tie_broken("m17-mod-bert-run", f"m17-mod -B -b produced {len(bs)} bytes, wanted {48 * (2 + nfr)}")
        else:
            if bs[:96] != bytes([0x77]) * 96 or any(bs[96 + 48 * k:98 + 48 * k] != bytes([0xDF, 0x55]) for k in range(nfr)):
                ctx.violation("mod-bert-bitstream-layout", "m17-mod -B -b does not start with the preamble(s) followed by BERT frames (sync DF55)",
                              {"head": bs[:160].hex()})
            for inv, flag in ((0, []), (1, ["-i"])):
                bb = head(["-B", *flag], 2 * 1920 * (2 + nfr))
                rs = decode16(bb)
                rc, o = ctx.run_exe(model, ["spec"], input_text=f"shape {inv} {bs.hex()}\n", timeout=600)
                ss = decode16(bytes.fromhex(o.strip().split("=", 1)[-1]))
                ctx.case(f"bert-process-baseband-{inv}", nontrivial=len(rs) == 1920 * (2 + nfr))
                ctx.count("run:baseband:bert" + ("-inverted" if inv else ""))
                n = min(len(rs), len(ss))
                j = next((k for k in range(n) if abs(ss[k] - rs[k]) > 1), None)
                if len(rs) != 1920 * (2 + nfr):
                    ctx.tie_broken("m17-mod-bert-run", f"m17-mod -B {' '.join(flag)} produced {len(rs)} samples, wanted {1920 * (2 + nfr)}")
                elif j is not None:
                    ctx.violation("mod-baseband-not-continuous",
                                  "BERT mode: baseband differs from one continuous run of the RRC filter (scale 7168) over the symbols of the -b output",
                                  {"mode": "-B" + (" -i" if inv else ""), "first_bad_sample": j, "symbol_index": j // 10, "block_index": j // 1920,
                                   "real": list(rs[j:j + 12]), "ideal": list(ss[j:j + 12]), "bitstream_prefix": bs[:144].hex()})
                    break

    # ------------------------------------------------------------------ transmit()'s audio buffer before the first full frame
    if binary and exe and model:
        audio = gen_audio(r, r.range(2, 300), "noise")
        # (i) the real binary under valgrind: is an uninitialised value handed to codec2 by transmit()?
        vg = shutil.which("valgrind")
        if vg:
            rc, out, err = run_binary(binary, "A", "", 0, "b", audio, timeout=600, wrapper=(vg, "-q", "--error-exitcode=0"))
            n_un = err.count("uninitialised value")
            ctx.coverage["valgrind_uninitialised_reports_partial_first_frame"] = n_un
            rc, out2, err2 = run_binary(binary, "A", "", 0, "b", gen_audio(r, 320, "noise"), timeout=600, wrapper=(vg, "-q", "--error-exitcode=0"))
            ctx.coverage["valgrind_uninitialised_reports_full_first_frame"] = err2.count("uninitialised value")
            ctx.case("valgrind-partial"); ctx.case("valgrind-full")
        else:
            n_un = 0
            ctx.notes.append("valgrind not available: the uninitialised read is only exhibited in-process")
        # (ii) in-process: transmit() called on a stack filled with 0x55; expected = zero-padded partial frame
        rc, o = ctx.run_exe(exe, input_text=f"dirty 0 41 {hx(audio)}\ncodec {hx(audio)}\ncodec {hx(audio)} 21845\n")
        ol = o.strip().split("\n")
        if len(ol) == 3:
            dirty_real, cod0, cod55 = ol[0], ol[1].split("=")[1], ol[2].split("=")[1]
            rc, sp = ctx.run_exe(model, ["spec"], input_text=f"dirty 0 41 {hx(audio)} {cod0} 0\n")
            rc, md = ctx.run_exe(model, ["impl"], input_text=f"dirty 0 41 {hx(audio)} {cod55} 21845\n")
            ctx.case("dirty-stack")
            ctx.coverage["dirty_stack_run_equals_model_with_audio0_0x5555"] = (md.strip() == dirty_real)
            differs = sp.strip() != dirty_real
            if (differs or n_un > 0) and flags.get("audio_zero_init") == "false":
                ctx.violation("mod-partial-first-frame-uninit",
                              "transmit(): `audio_frame_t audio;` is not initialised, so a partial FIRST frame (fewer than 320 samples in all) "
                              "is padded with indeterminate stack content instead of zeros before it is handed to codec2_encode",
                              {"audio_samples": len(audio) // 2, "audio_int16le_hex": hx(audio),
                               "valgrind_uninitialised_value_reports": n_un,
                               "in_process_transmit_on_stack_filled_with_0x55": dirty_real[:220],
                               "specification_with_zero_padded_frame": sp.strip()[:220],
                               "model_with_audio0_all_0x5555_equals_real": md.strip() == dirty_real})
            elif differs or n_un > 0:
                ctx.violation("mod-partial-first-frame-padding", "a partial first frame is not zero padded although the source initialises the buffer",
                              {"audio_int16le_hex": hx(audio), "real": dirty_real[:220], "specification": sp.strip()[:220]})

    # ------------------------------------------------------------------ frame-number wrap: 32770 frames (thorough, or when something broke)
    known = {k for k, _ in ctx.known_findings()}
    if binary and exe and model and (thorough or ctx.broken or ctx.degraded or any(v[0] not in known for v in ctx.violations)):
        nframes = 32770
        n = nframes * 320 - 7
        rc, out, err = run_binary(binary, "WRAP", "", 1, "b", bytes(2 * n), timeout=1200)
        rc2, cod = ctx.run_exe(exe, input_text=f"codecz {n}\n", timeout=1200)
        cod = cod.strip().split("=", 1)[-1]
        rc3, sp = sh(["sh", "-c", 'ulimit -s unlimited 2>/dev/null || ulimit -s 1000000; exec "$0" spec', str(model)],
                     input=f"runz 1 {shex('WRAP')} - {n} {cod}\n", timeout=3000)
        so = sp.strip()[4:]
        ctx.case("wrap-32770-frames")
        ctx.count("run:bitstream:silence:32770-frames")
        if rc == 0 and so != out.hex():
            sb = bytes.fromhex(so) if so and all(ch in "0123456789abcdef" for ch in so) else b""
            d = first_diff(sb, out)
            early = d is not None and d < 96 + 48 * 32767
            ctx.violation("mod-bitstream-differs-from-spec" if early else "mod-frame-number-wrap",
                          "m17-mod -b output differs from the specification stream (32770-frame run)" if early else
                          "a transmission of more than 2^15 frames differs from the specification stream from frame 32767 on (15-bit frame number wrapping to 0, EOS on the last frame only)",
                          {"src": "WRAP", "can": 1, "audio": f"{n} zero samples ({nframes} frames)", "first_differing_byte": d,
                           "where": locate(d) if d is not None else None, "length_real": len(out), "length_spec": len(sb),
                           "real_around": out[max(0, (d or 0) - 4):(d or 0) + 12].hex(), "spec_around": sb[max(0, (d or 0) - 4):(d or 0) + 12].hex()})
        ctx.coverage["wrap_run_frames"] = nframes
