"""C03 — demodulator tracking in steady reception (PARTIAL: control-logic theorems + end-to-end test).

What this check does on every run:
  * regenerates coq/gen/ConstsDemod.v from M17Demodulator.h / DataCarrierDetect.h / Correlator.h and rebuilds the theorems of
    coq/Properties_C03.v about the control-logic model coq/ImplDemodCtl.v;
  * correspondence (the tie of that model): the real M17Demodulator<float> is run on rendered transmissions with `trace 1`;
    after EVERY input sample its public discrete members are compared with the extracted step function applied to the previous
    observed state and the observations of that sample (trace inclusion);
  * property oracle on the real code (the part that is only TESTED): independent transmitter (tools/m17ref.py) -> channel simulator
    (harness/c03.cpp: closed-form RRC, timing phase, clock error, gain, DC, noise, lead-in) -> real demodulator in a fresh process;
    after the first eight consecutive bit-exact frames every later frame must arrive exactly once, in order, bit-exact, through the
    EOS frame, and every LSF reported must equal the transmitted one.
"""
import math

import c03rig
from vlib import COQ, VERIF

PROPERTY = "C03"
CONSTS = ["demod", "taps", "dsp"]
COQ_TARGETS = ["Properties_C03.vo", "Extract_C03.vo"]
PROPERTIES_FILE = "Properties_C03.v"
LEVEL = "other"
EXPLANATION = (
    "PARTIAL. THEOREMS (Coq, about the hand-written control-logic model ImplDemodCtl.v of M17Demodulator::operator() and the "
    "functions it calls, over ALL observation sequences satisfying the stated hypotheses): c03_tracking_one_decode_per_frame "
    "(from a frame boundary in STREAM_SYNC, as long as in every period the stream sync word is found inside the 78..86-sample window "
    "or the previous Viterbi cost is below the coasting limit, no EOT marker is reported, the carrier detector keeps seeing the carrier and "
    "the free-running clock moves the sampling index by at most one position and not on two consecutive samples: the decoder is invoked "
    "exactly once per period, with sync type STREAM, exactly when the 184th symbol after the 8-symbol sync word has been pushed, the first "
    "payload symbol being taken exactly 90 samples after the previous frame's last and the others 9..11 samples apart; demodState is never "
    "UNLOCKED; missing_sync_count stays <= 1), c03_eot_ends_stream, c03_wf_invariant, plus satisfiability Examples.  "
    "TIE of the model: public-member trace inclusion on every sample of every traced run (no hook).  "
    "ONLY TESTED (end-to-end, on the real code): that the matched filter, correlator, Kalman clock recovery and deviation/offset estimators "
    "deliver observations satisfying those hypotheses and bit-exact frames for the channel envelope (timing phase, +-200 ppm, 0.3x..3.5x, "
    "DC +-0.03, SNR 30 dB/inf, 1..12 s, lead-in histories).  NOT MODELLED: anything floating-point (filters, thresholds, estimators), "
    "the frame decoder (C01/C05/C08), eye_open (depends on C19's table theorem; not built here)."
)
RULE = ("transmissions: random callsigns/CAN/payloads (m17ref), tau in 10 sub-sample phases, ppm in {0,+-50,+-200}, gain in {0.3,1,3.5}, "
        "DC in {0,+-0.03}, SNR in {inf,30 dB}, lengths 1..12 s (quick: mostly 2 s), lead-in in {none, zeros, Gaussian noise 1e-4..0.1, "
        "earlier transmission + gap}; one fresh process each.  A case is non-trivial if steady reception (8 consecutive bit-exact frames) was "
        "reached before the end of the transmission, so that the property's conclusion was actually checked; distinct by case parameters.  "
        "Trace inclusion: one evaluation per sample.")
ASSUMPTIONS = [
    "model = hand-written coq/ImplDemodCtl.v; tie = per-sample public-member trace inclusion on the traced runs of this check + regenerated constants",
    "channel simulator harness/c03.cpp calibrated once against the real m17-mod baseband (max abs deviation 0.0023 at nominal peak 0.75; see docs/notes/C03.md)",
    "numerics of KalmanFilter.h are those of the Blaze stand-in harness/shim/blaze",
    "SNR is signal power over noise power in the full 48 kHz sampled band",
]
TRUSTED = ["harness/shim/blaze (stand-in for the absent Blaze library)", "tools/m17ref.py (input generator only)", "tools/c03rig.py (oracle)"]

K0 = c03rig.A0 * math.sqrt(10.0)      # matched-filter output level per unit symbol at gain 1


def build_model(ctx):
    ctx.model = ctx.build_ocaml("c03_driver", [COQ / "c03_model.mli", COQ / "c03_model.ml", VERIF / "ocaml" / "c03_driver.ml"])


PPMS = [0, 50, -50, 200, -200]
GAINS = [0.3, 1.0, 3.5]
DCS = [0.0, 0.03, -0.03]
SNRS = [None, 30]


def lead_in(r, kind):
    """lead-in segments and the LSFs of earlier transmissions they contain"""
    if kind == "none":
        return [], []
    if kind == "zeros":
        return [f"seg zeros {r.range(1920, 24000)}"], []
    if kind == "noise":
        return [f"seg noise {r.range(1920, 72000)} {r.choice([1e-4, 1e-3, 1e-2, 0.1])} {r.choice(['g', 'u'])}"], []
    if kind == "prevtx":
        ptx = c03rig.make_tx(r, r.range(3, 25))
        gap = r.range(24000, 72000)
        return [f"seg noise {r.range(0, 3000)} 0.001 g",
                c03rig.tx_seg(ptx, False, r.below(10) / 10, r.choice(PPMS), r.choice(GAINS), r.choice(DCS), 0.0),
                r.choice([f"seg zeros {gap}", f"seg noise {gap} 0.001 g"])], [ptx["lsf"]]
    if kind == "longprevtx":
        # a long earlier transmission (the clock filter's covariance has converged), a short pause, then the transmission under test
        ptx = c03rig.make_tx(r, r.range(250, 300))
        return [c03rig.tx_seg(ptx, False, r.below(10) / 10, r.choice([0, 20, -20]), 1.0, 0.0, 0.0), f"seg zeros {r.range(2400, 4800)}"], [ptx["lsf"]]
    raise ValueError(kind)


def gen_cases(ctx, n, lengths, trace_every=1):
    """n cases; the k-th uses sub-sample phase (k mod 10)/10, the other parameters cycle so that every value occurs"""
    rng = ctx.rng.fork("c03-grid")
    cases = []
    order = rng.shuffle(list(range(n)))
    for k in range(n):
        r = rng.fork(f"case{k}")
        secs = lengths[order[k] % len(lengths)]
        nfr = max(9, int(round(secs * 25)))
        tx = c03rig.make_tx(r, nfr)
        par = {"tau": (k % 10) / 10.0, "ppm": PPMS[(k // 2) % 5] if k < 20 else r.choice(PPMS),
               "gain": GAINS[k % 3] if k < 20 else r.choice(GAINS), "dc": DCS[(k // 3) % 3] if k < 20 else r.choice(DCS),
               "snr": SNRS[k % 2] if k < 20 else r.choice(SNRS), "secs": secs, "frames": nfr,
               "lead": ["zeros", "noise", "none", "prevtx"][(k // 5) % 4] if k < 20 else r.choice(["zeros", "noise", "none", "prevtx"])}
        sig = c03rig.sigma_for_snr(par["gain"], par["snr"])
        segs, prev = lead_in(r, par["lead"])
        par["earlier_lsfs"] = prev
        par["lead_segments"] = [s[:70] for s in segs]
        segs = segs + [c03rig.tx_seg(tx, True, par["tau"], par["ppm"], par["gain"], par["dc"], sig), "seg zeros 4800"]
        trace = (k % trace_every == 0)
        cases.append({"name": f"c03_{k}", "text": c03rig.case_text(r.next() & 0xFFFFFFFF, trace, segs), "trace": trace,
                      "tx": tx, "par": par})
    # a second transmission from a station with another clock, right after a long one (state of the clock filter carried over)
    for k in range(max(4, n // 20)):
        r = rng.fork(f"second{k}")
        nfr = 50
        tx = c03rig.make_tx(r, nfr)
        ppm = [120, -130, 135, -120, 100, -140, 160, -100][k % 8] if k < 8 else r.range(-200, 200)
        par = {"tau": r.below(10) / 10.0, "ppm": ppm, "gain": 1.0, "dc": 0.0, "snr": None, "secs": 2, "frames": nfr, "lead": "longprevtx"}
        segs, prev = lead_in(r, "longprevtx")
        par["earlier_lsfs"] = prev
        par["lead_segments"] = [s[:70] for s in segs]
        segs = segs + [c03rig.tx_seg(tx, True, par["tau"], par["ppm"], par["gain"], par["dc"], 0.0), "seg zeros 4800"]
        cases.append({"name": f"c03_second_{k}", "text": c03rig.case_text(r.next() & 0xFFFFFFFF, False, segs), "trace": False,
                      "tx": tx, "par": par})
    return cases


def estimator_error(res, par, n):
    """(relative error of the deviation estimate, offset error in units of the symbol spacing) at the frame delivered at sample n"""
    est = res["est"].get(n)
    if not est:
        return None
    idev, off = est
    true_idev = 1.0 / (par["gain"] * K0)
    true_off = par["dc"] * 10.0069          # DC gain of the receiver's matched filter (sum of its taps)
    if not (math.isfinite(idev) and math.isfinite(off)):
        return (float("inf"), float("inf"))
    return (idev / true_idev - 1.0, (off - true_off) * true_idev / 2.0)


def classify(res, par, what, detail):
    """key of a C03 violation: the oracle's verdict plus, when the frame callback shows it, the mechanism"""
    if what == "lsf-differs" and detail.get("lsf_reported") in par.get("earlier_lsfs", []):
        return "lsf-of-previous-transmission"
    n = detail.get("at_sample")
    if what in ("frame-corrupt", "frame-lost", "frame-duplicated") and n is not None:
        e = estimator_error(res, par, n)
        if e:
            detail["deviation_estimate_rel_error"] = round(e[0], 4)
            detail["offset_estimate_error_in_symbol_spacings"] = round(e[1], 4)
            # the recorded finding, narrowly: level estimators started on an idle channel (no earlier signal in the history) and still off,
            # and the damage is a marginal symbol decision (a bit or two of one frame), not a frame of garbage
            nbits = None
            if detail.get("expected") and detail.get("delivered") and len(detail["expected"]) == len(detail["delivered"]):
                nbits = bin(int(detail["expected"], 16) ^ int(detail["delivered"], 16)).count("1")
                detail["bits_in_error"] = nbits
            if (abs(e[0]) > 0.05 or abs(e[1]) > 0.08) and what == "frame-corrupt" and nbits is not None and nbits <= 2 \
                    and par.get("lead") in ("zeros", "noise"):
                return what + "-estimator-misconverged"
    return what


def check_traces(ctx, cases, results, name):
    """the tie of the control-logic model: every traced sample must be a step of the extracted model"""
    steps = bad = dl = dbad = periods = good = monp = monv = wfbad = 0
    first = None
    for c, r in zip(cases, results):
        if not c["trace"]:
            continue
        t = r.get("T")
        if r["rc"] != 0 or t is None:
            ctx.tie_broken(name, f"traced run of {c['name']} failed (rc={r['rc']}); case file {r['case_file']}")
            continue
        steps += t["steps"]; bad += t["bad"] + t["updmissing"]; dl += t["dlines"]; dbad += t["dbad"]
        periods += t["periods"]; good += t["goodperiods"]; monp += t["monperiods"]; monv += t["monviol"]; wfbad += t["wfbad"]
        if (t["bad"] or t["dbad"] or t["updmissing"] or t["monviol"] or t["wfbad"]) and first is None:
            first = (c["name"], r["case_file"], t["first"][:600])
    ctx.evaluations += steps
    ctx.count("traced-samples", steps)
    ctx.count("dcd-updates-compared", dl)
    ctx.coverage.setdefault("trace_inclusion", {})
    ctx.coverage["trace_inclusion"][name] = {
        "samples_checked": steps, "mismatches": bad, "dcd_updates_checked": dl, "dcd_update_mismatches": dbad,
        "stream_periods_seen": periods, "periods_in_which_the_tracking_hypotheses_held": good,
        "periods_accepted_by_the_framing_monitor": monp, "monitor_violations_under_hypotheses": monv, "states_outside_wf": wfbad}
    if bad or dbad:
        ctx.tie_broken(name, f"{bad} of {steps} sample transitions / {dbad} of {dl} dcd.update() calls are not steps of the model; first: {first}")
    if monv or wfbad:
        ctx.tie_broken(name + "-theorem-vs-trace", f"a real trace satisfies the hypotheses of a theorem but not its conclusion "
                       f"(monitor violations {monv}, states outside wf {wfbad}); first: {first}")
    return steps, bad + dbad


def run(ctx):
    exe = ctx.build_cpp("c03_harness", "c03.cpp")
    if exe is None:
        return
    thorough = ctx.tier == "thorough"
    if thorough:
        cases = gen_cases(ctx, 1200, [1, 2, 2, 3, 4, 6, 8, 12, 2, 3, 4, 6], trace_every=4)
    else:
        cases = gen_cases(ctx, 36, [2, 2, 2, 2, 2, 4, 2, 2, 1, 2, 2, 3], trace_every=1)
    results = c03rig.run_cases(ctx, exe, getattr(ctx, "model", None), cases)
    check_traces(ctx, cases, results, "ctl-trace-inclusion")
    nsteady = 0
    acq = []
    for c, r in zip(cases, results):
        par = c["par"]
        key = "tau=%(tau).1f ppm=%(ppm)d gain=%(gain)g dc=%(dc)g snr=%(snr)s secs=%(secs)s lead=%(lead)s" % par
        ctx.count(f"lead={par['lead']}"); ctx.count(f"secs={par['secs']}"); ctx.count(f"gain={par['gain']}"); ctx.count(f"ppm={par['ppm']}")
        if r["rc"] != 0 or not r["main"] or r["end"] is None:
            ctx.tie_broken("c03-harness-run", f"harness failed on {c['name']} rc={r['rc']} ({r['case_file']})")
            continue
        start = r["main"][-1]
        status, what, detail = c03rig.oracle_c03(r, c["tx"], start)
        ctx.case(c["name"] + " " + key, nontrivial=(status != "not-steady"))
        import os
        if os.environ.get("C03_DEBUG") and "second" in c["name"]:
            ctx.log(f"DEBUG {c['name']} ppm={par['ppm']} status={status} what={what} steady={detail.get('steady_from_frame')} delivered={detail.get('delivered_stream_frames')}")
        if status != "not-steady":
            nsteady += 1
            acq.append(detail.get("steady_from_frame"))
        if len(ctx.samples) < 4:
            ctx.sample({"case": key, "lsf": c["tx"]["lsf"], "frames_transmitted": par["frames"], "verdict": status,
                        "steady_from_frame": detail.get("steady_from_frame"), "delivered": detail.get("delivered_stream_frames")})
        if status == "violation":
            k = classify(r, par, what, detail)
            ctx.violation(k, f"after steady reception the real demodulator did not deliver every frame exactly once, in order, bit-exact ({what})",
                          {"case_file": r["case_file"], "replay_cmd": f"{exe} run {r['case_file']}", "parameters": {a: b for a, b in par.items()},
                           "transmitted_lsf": c["tx"]["lsf"], "detail": detail})
    ctx.coverage["steady_reception_reached"] = f"{nsteady} of {len(cases)} transmissions"
    long_enough = sum(1 for c in cases if c["par"]["secs"] >= 2)
    if nsteady * 4 < long_enough:
        # the property is conditional on steady reception: a run in which (almost) no transmission gets there has checked nothing
        ctx.broken.append(("oracle", "c03-oracle-vacuous", f"only {nsteady} of {long_enough} transmissions of >= 2 s reached steady reception "
                           f"(eight consecutive bit-exact frames); the unchanged tree reaches it in about 5 of 6; see C06 for the acquisition failure itself"))
        ctx.log(f"oracle vacuous: steady reception reached in {nsteady} of {long_enough} transmissions")
    run_corpus(ctx, exe)
    ctx.coverage["acquisition_frame_histogram"] = {str(k): acq.count(k) for k in sorted(set(a for a in acq if a is not None))}


def run_corpus(ctx, exe):
    """kept reproducers (selftest/corpus/C03-*.json + .case): run on every check, judged by the same oracle"""
    import json
    cdir = VERIF / "selftest" / "corpus"
    metas = sorted(cdir.glob("C03-*.json"))
    cases = []
    for m in metas:
        meta = json.loads(m.read_text())
        text = (cdir / meta["case"]).read_text()
        par = dict(meta["par"])
        for line in text.splitlines():
            t = line.split()
            if len(t) > 9 and t[:2] == ["seg", "tx"] and t[2] == "1":
                par.update({"tau": float(t[3]), "ppm": float(t[4]), "gain": float(t[5]), "dc": float(t[6])})
        par["earlier_lsfs"] = meta.get("earlier_lsfs", [])
        cases.append({"name": "corpus_" + m.stem, "text": text, "trace": False, "tx": meta["tx"], "par": par, "what": meta.get("what", "")})
    if not cases:
        return
    results = c03rig.run_cases(ctx, exe, None, cases)
    for c, r in zip(cases, results):
        if r["rc"] != 0 or not r["main"]:
            ctx.tie_broken("c03-corpus-run", f"harness failed on {c['name']} rc={r['rc']}")
            continue
        status, what, detail = c03rig.oracle_c03(r, c["tx"], r["main"][-1])
        ctx.case(c["name"], nontrivial=True)
        ctx.count("corpus")
        if status == "violation":
            k = classify(r, c["par"], what, detail)
            ctx.violation(k, f"corpus case {c['name']} ({c['what']}): {what}",
                          {"case_file": r["case_file"], "replay_cmd": f"{exe} run {r['case_file']}", "parameters": c["par"], "detail": detail})
