"""C14 — M17Modulator emits a complete, well-formed stream for every PTT/audio schedule.

Tie: the real class driven with real threads (harness/c14.cpp).
 (a) scripted schedules whose event order is known by construction: collected bytes == extracted model (ImplModulator.run
     with the Codec2 results computed by libcodec2 on the same audio) == extracted specification stream (SpecModulator.keyup_stream);
 (b) racy schedules (feeder thread, PTT toggled at random sample counts, consumer delays 0 / 1 us / 1 ms per byte): the
     SELF-CONSISTENCY ORACLE, which needs no knowledge of the audio: every 48-byte frame is decoded and re-encoded by the
     extracted SPEC encoder and must be bit-identical; FNs count 0,1,2..; LICH fragments cycle through the LSF; EOS on the last
     frame of each key-up and on no other; LSF = spec LSF of (dst, src), CAN 0, valid CRC; each key-up starts with the 0x77
     preamble; byte count a multiple of 48; the modulator ends IDLE.  (b) is applied to the streams of (a) as well."""
import hashlib
from concurrent.futures import ThreadPoolExecutor

import m17ref as R
from vlib import COQ, VERIF

PROPERTY = "C14"
CONSTS = ["crc", "modulator"]
COQ_TARGETS = ["Properties_C14.vo", "Extract_C14.vo"]
PROPERTIES_FILE = "Properties_C14.v"
LEVEL = "proof"
RULE = ("scripted schedules (1-3 key-ups of 0..4 full frames, final partial frame, release sample, redundant ptt_on, trailing idle samples, "
        "one key-up driven by real 5 s timeouts; consumer delay 0/1/200/1000 us per byte) compared byte for byte with the extracted model and the "
        "extracted specification stream; racy schedules (continuous feeder, PTT toggled at random sample counts 0..4 frames, 1-4 key-ups, consumer "
        "delay 0/1/1000 us, paced or unpaced feeder, stalled consumer) and schedules that change the callsigns with source()/dest() between "
        "key-ups (every key-up must carry the LSF frame and LICH fragments of the pair configured then; compared byte for byte with the "
        "extracted run_segments, theorem c14_reconfigured_sessions) checked by the self-consistency oracle.  A case is one schedule; non-trivial if it emitted at "
        "least one stream frame; distinct by the emitted bytes.")
ASSUMPTIONS = ["model = hand-written ImplModulator.v; tie = differential run on this run's schedules + constants regenerated from the source",
               "Codec2 is an oracle in the proofs; in the tie its results come from libcodec2 run by the harness on the same audio",
               "put() with the default timeout blocks on a full open queue (C16 forever_never_times_out) - named hypothesis of c14_no_byte_lost",
               "wall-clock effects (40 ms warning, the 5 s get timeout firing under load) are covered as possibilities by the Timeout event, not timed",
               "M17Modulator is observed through run/ptt_on/ptt_off/wait_until_idle/state() and the bytes read from its output queue only"]

CALL_CHARS = "ABCDEFGHIJKLMNOPQRSTUVWXYZ0123456789-/."


def build_model(ctx):
    ctx.model = ctx.build_ocaml("c14_driver", [COQ / "c14_model.mli", COQ / "c14_model.ml", VERIF / "ocaml" / "c14_driver.ml"])


def hx(s):
    return s.encode().hex() if s else "-"


def rand_call(r, allow_empty=False):
    if allow_empty and r.chance(1, 4):
        return ""
    n = r.range(1, 9)
    s = "".join(r.choice(CALL_CHARS) for _ in range(n))
    return "A" + s[1:] if s == "-" else s          # a lone "-" is the harness's notation for the empty callsign


def audio_md5(frames):
    reqs = []
    for f in frames:
        reqs.append(",".join(map(str, f[:160])))
        reqs.append(",".join(map(str, f[160:320])))
    return hashlib.md5(";".join(reqs).encode()).hexdigest()


# ------------------------------------------------------------------ scripted (deterministic) schedules
class Det:
    """one scripted schedule: harness ops, model events, audio frames, expected structure"""

    def __init__(self, src, dst, delay):
        self.src, self.dst, self.delay = src, dst, delay
        self.ops, self.events, self.frames, self.keyups = [], [], [], []
        self.nbytes = 0
        self.timeouts = False

    def keyup(self, r, full, part, last, extra_on=False):
        t1, t2 = r.range(-30000, 30000), r.range(-30000, 30000)
        self.ops += ["on", f"s:{t1}", "ws:3", f"s:{t2}", "ws:4"]
        self.events += ["on", str(t1), str(t2)]
        self.nbytes += 96
        if extra_on:
            self.ops.append("on")
            self.events.append("on")
        samples = []
        for _ in range(full):
            kind = r.below(4)
            fr = [0] * 320 if kind == 0 else [r.range(-32768, 32767) for _ in range(320)] if kind == 1 else \
                [int(12000 * ((i * (3 + kind)) % 40 - 20) / 20) for i in range(320)]
            samples += fr
            self.nbytes += 48
            self.ops += ["s:" + ",".join(map(str, fr)), f"wb:{self.nbytes}"]
        rest = [r.range(-32768, 32767) for _ in range(part)]
        if rest:
            self.ops.append("s:" + ",".join(map(str, rest)))
            samples += rest
        self.events += list(map(str, samples)) + ["off", str(last)]
        self.nbytes += 48
        self.ops += ["off", f"s:{last}", f"wb:{self.nbytes}", "ws:1"]
        frames = [samples[i:i + 320] for i in range(0, full * 320, 320)]
        tail = rest + [last]
        frames.append(tail + [0] * (320 - len(tail)))
        self.keyups.append({"samples": samples, "last": last, "frames": frames})
        self.frames += frames

    def idle(self, r, n):
        vals = [r.range(-32768, 32767) for _ in range(n)]
        if vals:
            self.ops.append("s:" + ",".join(map(str, vals)))
            self.events += list(map(str, vals))

    def line(self):
        return f"det {self.src} {self.dst or '-'} {self.delay}{'u' if getattr(self, 'until', False) else ''} " + " ".join(self.ops)


def gen_det(ctx):
    r = ctx.rng.fork("c14-det")
    thorough = ctx.tier == "thorough"
    out = []
    n = 48 if thorough else 8
    for k in range(n):
        delay = [0, 1, 200, 1000][k % 4]
        d = Det(rand_call(r), rand_call(r, True), delay)
        d.until = (k // 4) % 2 == 1            # every other group of four drains with get_until() instead of get(timeout)
        if d.until:
            ctx.count("det-consumer-get_until")
        nk = r.range(1, 3)
        for j in range(nk):
            lastk = j == nk - 1
            full = r.choice([0, 0, 1, 1, 2, 3, 4]) if delay < 1000 else r.choice([0, 1, 2])
            if k == 0 and j == 0:
                full = 7 if thorough else 6        # one key-up beyond a whole LICH cycle
            # a partial frame leaves the order of the last sample and ptt_off unobservable unless the release sample is 0,
            # and may leave a sample in flight: only in the last key-up
            # (the release sample 0 and the queue-empty wait of the harness make a partial frame safe in earlier key-ups too)
            part = r.choice([0, 1, 159, 160, 161, 318, 319, r.range(2, 317)]) if r.chance(1, 2) else 0
            last = 0 if part else r.choice([0, 1, -1, 32767, -32768, r.range(-32768, 32767)])
            d.keyup(r, full, part, last, extra_on=r.chance(1, 3))
            ctx.count(f"det-keyup-full{min(full, 5)}{'+part' if part else ''}")
        if r.chance(1, 2):
            d.idle(r, r.range(1, 400))
        ctx.count(f"det-delay{delay}")
        out.append(d)
    # a long partial frame of non-silent audio, then a key-up released after fewer samples: its end-of-stream frame must be
    # padded with zeros, not with the previous key-up's audio
    for k in range(3 if thorough else 1):
        d = Det(rand_call(r), rand_call(r, True), 0)
        d.keyup(r, r.choice([0, 1]), r.range(200, 319), 0)
        d.keyup(r, 0, r.range(1, 150), 0)
        ctx.count("det-short-keyup-after-long-partial")
        out.append(d)
    # one key-up driven entirely by the 5 s timeout of audio_queue.get(): PREAMBLE, LINK_SETUP and END_OF_STREAM on Timeout events
    t = Det(rand_call(r), rand_call(r, True), 0)
    t.ops = ["tmo:40", "on", "ws:4", "off", "ws:1"]
    t.events = ["on", "t", "t", "off", "t"]
    t.frames = [[0] * 320]
    t.keyups = [{"samples": [], "last": 0, "frames": [[0] * 320]}]
    t.nbytes = 144
    t.timeouts = True
    ctx.count("det-timeouts")
    out.append(t)
    return out


def gen_setters(ctx):
    """repeated key-ups on one modulator whose callsigns are changed with source()/dest() while it is idle: every key-up must carry
    the LSF (frame and LICH fragments) of the callsigns configured at that time.  Judged by the oracle only (the extracted model
    takes one pair per run)."""
    r = ctx.rng.fork("c14-setters")
    out = []
    for k in range(12 if ctx.tier == "thorough" else 4):
        src, dst = rand_call(r), rand_call(r, True)
        d = Det(src, dst, 0)
        d.calls = []
        d.seg_start = []
        nk = r.range(2, 4)
        mode = k % 4                      # 0: dest only, 1: source only, 2: both, 3: random
        for j in range(nk):
            if j > 0:
                ch = {0: "d", 1: "s", 2: "sd"}.get(mode) or r.choice(["d", "s", "sd", ""])
                if "s" in ch:
                    src = rand_call(r)
                    d.ops.append(f"src:{src}")
                if "d" in ch:
                    dst = rand_call(r, True)
                    d.ops.append(f"dst:{dst or '-'}")
            d.calls.append((src, dst))
            d.seg_start.append(len(d.events))
            d.keyup(r, r.choice([1, 2, 6, 7]), 0, r.choice([0, 1, -1]))
        ctx.count(f"setters-{['dest', 'source', 'both', 'random'][mode]}")
        out.append(d)
    return out


def gen_rand(ctx):
    r = ctx.rng.fork("c14-rand")
    n = 300 if ctx.tier == "thorough" else 13
    out = []
    for k in range(n):
        delay = [0, 1, 1000, 0, 1000, 1][k % 6]
        keyups = r.range(1, 4) if delay < 1000 else r.range(1, 2)
        maxs = r.choice([0, 5, 330, 700, 1300, 2300]) if delay < 1000 else r.choice([0, 330, 700])
        pace = r.choice([0, 0, 100, 1000])
        # every fourth case: the consumer starts draining only 0.3 .. 0.6 s after the first byte (a stalled reader)
        stall = r.range(300, 600) if k % 4 == 3 else 0
        out.append({"src": rand_call(r), "dst": rand_call(r, True), "delay": delay, "seed": r.below(1 << 31), "keyups": keyups,
                    "maxsamples": maxs, "pace": pace, "extra_on": int(r.chance(1, 2)), "stall": stall, "until": (k // 3) % 2 == 1})
        if out[-1]["until"]:
            ctx.count("rand-consumer-get_until")
        if stall:
            ctx.count("rand-consumer-stall")
    if ctx.tier == "thorough" or ctx.degraded or ctx.broken:
        # (also in the quick tier when a translator could not read the source or a proof broke: search harder for a failing schedule)
        # one key-up longer than 2^15 frames (frame-number wrap; about 22 minutes of audio, fed as fast as the modulator takes it)
        out.append({"src": rand_call(r), "dst": rand_call(r, True), "delay": 0, "seed": r.below(1 << 31), "keyups": 1,
                    "maxsamples": 32772 * 320, "minsamples": 32772 * 320, "pace": 0, "extra_on": 0, "stall": 0})
        ctx.count("rand-keyup-beyond-frame-number-wrap")
        # a consumer that starts draining only 6 s after the first byte (longer than any finite put timeout one might pick)
        out.append({"src": rand_call(r), "dst": rand_call(r, True), "delay": 0, "seed": r.below(1 << 31), "keyups": 1,
                    "maxsamples": 700, "minsamples": 400, "pace": 0, "extra_on": 0, "stall": 6000})
        ctx.count("rand-consumer-stall-6s")
        ctx.count(f"rand-delay{delay}")
    return out


def rand_line(c):
    return f"rand {c['src']} {c['dst'] or '-'} {c['delay']}{'u' if c.get('until') else ''} {c['seed']} {c['keyups']} {c['maxsamples']} {c['pace']} {c['extra_on']} {c.get('stall', 0)} {c.get('minsamples', 0)}"


def parse_result(line):
    f = {}
    for tok in line.split():
        if "=" in tok:
            k, v = tok.split("=", 1)
            f[k] = v
    return f


def run_parallel(ctx, exe, lines, workers, timeout=900):
    """run harness commands in `workers` processes; returns the output lines in order"""
    chunks = [lines[i::workers] for i in range(workers)]

    def one(ch):
        if not ch:
            return []
        rc, out = ctx.run_exe(exe, input_text="\n".join(ch) + "\n", timeout=timeout)
        res = [l for l in out.split("\n") if l.startswith("state=")][:len(ch)]
        return res + [f"state=-1 threw=0 fed=0 nbytes=0 error=harness-rc{rc} bytes=-"] * (len(ch) - len(res))
    with ThreadPoolExecutor(max_workers=workers) as ex:
        parts = list(ex.map(one, chunks))
    res = [None] * len(lines)
    for w, part in enumerate(parts):
        for j, l in enumerate(part):
            res[w + j * workers] = l
    return res


# ------------------------------------------------------------------ self-consistency oracle
def depuncture(bits, p, n):
    out, j = [], 0
    for i in range(n):
        if p[i % len(p)]:
            out.append(bits[j] if j < len(bits) else None)
            j += 1
        else:
            out.append(None)
    return out


def conv_decode_clean(coded, nbits):
    """inverse of the rate-1/2 K=5 encoder on an error-free (possibly punctured) word: each input bit from whichever
    of its two coded bits is present (proposal only - the verdict is the re-encoding by the extracted specification)"""
    x = []

    def past(k):
        return x[-k] if len(x) >= k else 0
    for t in range(nbits):
        g1, g2 = coded[2 * t], coded[2 * t + 1]
        if g1 is not None:
            b = g1 ^ past(3) ^ past(4)
        elif g2 is not None:
            b = g2 ^ past(1) ^ past(2) ^ past(4)
        else:
            b = 0
        x.append(b)
    return x


def deframe(frame46):
    bits = R.bits_of_bytes(frame46)
    bits = R.randomize(bits)
    return [bits[(45 * i + 92 * i * i) % 368] for i in range(368)]


def decode_lsf_frame(frame46):
    x = conv_decode_clean(depuncture(deframe(frame46), R.P1, 488), 240)
    return R.bytes_of_bits(x)


def decode_stream_frame(frame46):
    bits = deframe(frame46)
    lich = bits[:96]
    chunk = []
    for k in range(4):
        chunk += lich[24 * k:24 * k + 12]
    chunk = R.bytes_of_bits(chunk)
    x = conv_decode_clean(depuncture(bits[96:], R.P2, 296), 144)
    data = R.bytes_of_bits(x)
    return chunk, int.from_bytes(data[:2], "big"), data[2:18]


class SpecEncoder:
    """batched access to the extracted specification encoder"""

    def __init__(self, ctx):
        self.ctx = ctx

    def ask(self, lines):
        if not lines:
            return []
        rc, out = self.ctx.run_exe(self.ctx.model, ["spec"], input_text="\n".join(lines) + "\n", timeout=900)
        res = out.strip("\n").split("\n")
        if rc != 0 or len(res) != len(lines):
            raise RuntimeError(f"spec driver failed rc={rc} lines={len(res)}/{len(lines)}: {out[-200:]}")
        return res


def oracle_streams(ctx, spec, streams):
    """streams: list of dict(name, src, dst, res(parsed harness result), replay).  Decode every frame, batch the
    re-encodings through the extracted specification, then judge.  Returns number of stream frames checked."""
    asks, plans = [], []
    for s in streams:
        res = s["res"]
        b = bytes.fromhex(res["bytes"]) if res.get("bytes", "-") != "-" else b""
        s["raw"] = b
        plan = {"frames": [], "lsf_q": None, "lsf_qs": None}
        plan["lsf_q"] = len(asks)
        asks.append(f"lsf {hx(s['dst'])} {hx(s['src'])}")
        if s.get("calls"):                      # callsigns changed between key-ups with source()/dest()
            plan["lsf_qs"] = []
            for sr, ds in s["calls"]:
                plan["lsf_qs"].append(len(asks))
                asks.append(f"lsf {hx(ds)} {hx(sr)}")
        lsf = None
        for i in range(0, len(b) - 47, 48):
            f = b[i:i + 48]
            if f == R.PREAMBLE:
                plan["frames"].append(("P", i, None))
            elif f[:2] == R.SYNC_LSF:
                lsf = decode_lsf_frame(f[2:])
                plan["frames"].append(("L", i, (lsf, len(asks))))
                asks.append(f"lsfframe {lsf.hex()}")
            elif f[:2] == R.SYNC_STREAM:
                chunk, fn, payload = decode_stream_frame(f[2:])
                n = chunk[5] >> 5
                q = None
                if lsf is not None and n < 6:
                    q = len(asks)
                    asks.append(f"frame {lsf.hex()} {n} {fn & 0x7FFF} {payload.hex()} {fn >> 15}")
                plan["frames"].append(("S", i, (chunk, fn, payload, n, q, lsf)))
            else:
                plan["frames"].append(("?", i, None))
        plans.append(plan)
    answers = spec.ask(asks)
    nframes = 0
    for s, plan in zip(streams, plans):
        nframes += judge(ctx, s, plan, answers)
    return nframes


def judge(ctx, s, plan, answers):
    res, b = s["res"], s["raw"]
    rep = dict(s["replay"])
    rep.update({"harness_result": {k: v for k, v in res.items() if k != "bytes"}, "bytes": b.hex()})

    def bad(key, text, **kw):
        r = dict(rep)
        r.update(kw)
        ctx.violation(key, text + f" [{s['name']}]", r)
        return 0
    if len(b) % 48 != 0:
        return bad("modulator-bytes-lost", f"the consumer received {len(b)} bytes, not a multiple of 48: bytes put on the output queue were lost")
    if res.get("error"):
        return bad("modulator-stalled", f"the schedule did not complete: {res['error']}")
    if res.get("state") != "1" or res.get("threw") != "0":
        return bad("modulator-not-idle", f"modulator ended in state {res.get('state')} (1 = IDLE), threw={res.get('threw')}")
    f = parse_result(answers[plan["lsf_q"]])
    want_lsf = bytes.fromhex(f["lsf"])
    want_lsf_frame = bytes.fromhex(f["frame"])
    expect = "P"          # P preamble, L lsf, S stream frames
    k = 0
    lsf = None
    count = 0
    ku = -1               # index of the key-up
    for kind, off, info in plan["frames"]:
        where = {"offset": off, "frame": b[off:off + 48].hex()}
        if expect == "P":
            ku += 1
            if plan.get("lsf_qs") and ku < len(plan["lsf_qs"]):
                f = parse_result(answers[plan["lsf_qs"][ku]])
                want_lsf = bytes.fromhex(f["lsf"])
                want_lsf_frame = bytes.fromhex(f["frame"])
                where["keyup"] = ku
                where["configured_src_dst"] = list(s["calls"][ku])
            if kind != "P":
                if kind == "S" and off > 0:
                    return bad("modulator-eos-early", "a stream frame follows a frame that carries the end-of-stream bit", **where)
                return bad("modulator-preamble", "a key-up does not start with the 48-byte 0x77 preamble", **where)
            expect = "L"
            continue
        if expect == "L":
            if kind != "L":
                return bad("modulator-lsf-missing", "the preamble is not followed by an LSF frame", **where)
            lsf, q = info
            a = parse_result(answers[q])
            if bytes.fromhex(a["frame"]) != b[off:off + 48]:
                return bad("modulator-lsf-frame-not-spec", "the LSF frame is not the specification's encoding of the LSF it decodes to", decoded_lsf=lsf.hex(), reencoded=a["frame"], **where)
            if lsf != want_lsf:
                if lsf[:6] == want_lsf[6:12] and lsf[6:12] == want_lsf[:6] and want_lsf[:6] != want_lsf[6:12]:
                    return bad("modulator-lsf-field-order", "LSF carries the source before the destination", decoded_lsf=lsf.hex(), expected_lsf=want_lsf.hex(), **where)
                if a["crc"] != "0000":
                    return bad("modulator-lsf-crc", "LSF CRC does not check", decoded_lsf=lsf.hex(), expected_lsf=want_lsf.hex(), **where)
                return bad("modulator-lsf-content", "LSF differs from the specification's LSF for (dst, src), voice stream, CAN 0", decoded_lsf=lsf.hex(), expected_lsf=want_lsf.hex(), **where)
            if b[off:off + 48] != want_lsf_frame:
                return bad("modulator-lsf-frame-not-spec", "LSF frame differs from the specification's", **where)
            expect, k = "S", 0
            continue
        # stream frames
        if kind != "S":
            return bad("modulator-eos-missing", f"key-up ends after frame {k - 1} without an end-of-stream frame (next is {'a preamble' if kind == 'P' else 'not a stream frame'})", **where)
        chunk, fn, payload, n, q, _ = info
        count += 1
        want_chunk = lsf[5 * (k % 6):5 * (k % 6) + 5] + bytes([(k % 6) << 5])
        enc = bytes.fromhex(parse_result(answers[q])["frame"]) if q is not None else None
        det = dict(where, k=k, decoded_fn=fn, decoded_lich=chunk.hex(), decoded_payload=payload.hex())
        if enc != b[off:off + 48]:
            return bad("modulator-frame-not-spec", f"stream frame {k} is not bit-identical to the specification's encoding of what it decodes to", reencoded=enc.hex() if enc else None, **det)
        if chunk != want_chunk:
            return bad("modulator-lich-cycle", f"stream frame {k} does not carry LICH fragment {k % 6} of the LSF", expected_lich=want_chunk.hex(), **det)
        if (fn & 0x7FFF) != (k & 0x7FFF):
            return bad("modulator-fn-sequence", f"stream frame {k} carries frame number {fn & 0x7FFF}", **det)
        k += 1
        if fn & 0x8000:
            expect, k = "P", 0
    if expect != "P":
        return bad("modulator-eos-missing", "the last frame of the last key-up does not carry the end-of-stream bit", offset=len(b))
    return count


# ------------------------------------------------------------------ the check
def replay(ctx, exe):
    """./check C14 --replay file: run exactly the recorded harness command on the real code and judge it with the oracle"""
    import json
    rec = json.loads(open(ctx.replay_in).read())
    cmd = rec["replay"]["harness_command"]
    t = cmd.split()
    res = run_parallel(ctx, exe, [cmd], 1)[0]
    s = {"name": "replay", "src": t[1], "dst": "" if t[2] == "-" else t[2], "res": parse_result(res), "replay": {"harness_command": cmd}}
    if rec["replay"].get("callsigns_per_keyup"):
        s["calls"] = [tuple(x) for x in rec["replay"]["callsigns_per_keyup"]]
        s["replay"]["callsigns_per_keyup"] = rec["replay"]["callsigns_per_keyup"]
    n = oracle_streams(ctx, SpecEncoder(ctx), [s])
    ctx.case(hashlib.md5(s["raw"]).hexdigest(), True)
    ctx.sample({"replayed": cmd[:200], "result": {k: v for k, v in s["res"].items() if k != "bytes"}, "stream_frames_checked": n})


def run(ctx):
    exe = ctx.build_cpp("c14_harness", "c14.cpp", libs=["-lcodec2"])
    model = getattr(ctx, "model", None)
    if not exe or not model:
        return
    if ctx.replay_in:
        return replay(ctx, exe)
    thorough = ctx.tier == "thorough"
    workers = 6 if thorough else 4
    dets = gen_det(ctx)
    rands = gen_rand(ctx)
    (ctx.workdir / "cases.txt").write_text("\n".join([d.line() for d in dets] + [rand_line(c) for c in rands]) + "\n")

    # the timeout-driven script takes ~15 s of waiting: run it alongside everything else
    with ThreadPoolExecutor(max_workers=2) as bg:
        slow = bg.submit(run_parallel, ctx, exe, [dets[-1].line()], 1)
        det_res = run_parallel(ctx, exe, [d.line() for d in dets[:-1]], workers)
        rand_res = run_parallel(ctx, exe, [rand_line(c) for c in rands], workers)
        setters = gen_setters(ctx)
        set_res = run_parallel(ctx, exe, [d.line() for d in setters], workers)
        # Codec2 reference values for the scripted schedules (one Codec2 instance per modulator run, as in modulate())
        c2_in = []
        for d in dets:
            c2_in.append("c2reset")
            c2_in += ["c2 " + ",".join(map(str, f)) for f in d.frames]
        rc, c2_out = ctx.run_exe(exe, input_text="\n".join(c2_in) + "\n", timeout=600)
        c2_lines = [l for l in c2_out.split("\n") if l.startswith("c2=") or l == "ok"]
        if rc != 0 or len(c2_lines) != len(c2_in):
            ctx.tie_broken("c14-codec2-reference", f"rc={rc} {len(c2_lines)}/{len(c2_in)} lines")
            return
        det_res += slow.result()
    tables, it = [], iter(c2_lines)
    for d in dets:
        assert next(it) == "ok"
        tables.append([next(it)[3:] for _ in d.frames])
    # the schedules with source()/dest() between key-ups against the extracted run_segments
    c2s = []
    for d in setters:
        c2s.append("c2reset")
        c2s += ["c2 " + ",".join(map(str, f)) for f in d.frames]
    rc, c2o = ctx.run_exe(exe, input_text="\n".join(c2s) + "\n", timeout=600)
    c2l = [l for l in c2o.split("\n") if l.startswith("c2=") or l == "ok"]
    if rc != 0 or len(c2l) != len(c2s):
        ctx.tie_broken("c14-codec2-reference", f"setter schedules: rc={rc} {len(c2l)}/{len(c2s)} lines")
    else:
        it2 = iter(c2l)
        slines = []
        for d in setters:
            assert next(it2) == "ok"
            tab = "".join(next(it2)[3:] for _ in d.frames)
            bounds = d.seg_start + [len(d.events)]
            segs = [f"{hx(ds)}/{hx(sr)}/{','.join(d.events[bounds[i]:bounds[i + 1]]) or '-'}" for i, (sr, ds) in enumerate(d.calls)]
            slines.append(f"runsegs 167 {tab or '-'} " + " ".join(segs))
        rc, so = ctx.run_exe(model, ["impl"], input_text="\n".join(slines) + "\n", timeout=900)
        sres = [parse_result(l) for l in so.strip("\n").split("\n")]
        ic, mc = [], []
        for d, l, m in zip(setters, set_res, sres):
            res = parse_result(l)
            ic.append(f"state={res.get('state')} bytes={res.get('bytes')}")
            mc.append(f"state={m.get('mode')} bytes={m.get('bytes')}")
        ctx.diff_lines("modulator-reconfigured-impl-vs-model", [d.line()[:300] for d in setters], "\n".join(ic), "\n".join(mc))

    # (a) correspondence: real bytes vs extracted model on the known event order; and vs the specification stream
    junk = 0xA7
    mlines = [f"run {junk} {hx(d.dst)} {hx(d.src)} {''.join(t) or '-'} {','.join(d.events)}" for d, t in zip(dets, tables)]
    rc, mout = ctx.run_exe(model, ["impl"], input_text="\n".join(mlines) + "\n", timeout=900)
    mres = [parse_result(l) for l in mout.strip("\n").split("\n")]
    rc2, mout2 = ctx.run_exe(model, ["impl"], input_text="\n".join(l.replace(f"run {junk} ", "run 0 ", 1) for l in mlines[:4]) + "\n", timeout=900)
    if mout2.strip("\n").split("\n") != mout.strip("\n").split("\n")[:4]:
        ctx.tie_broken("c14-model-depends-on-uninitialised-memory", "the extracted model gives different bytes for different junk")
    impl_c, model_c = [], []
    for d, res_line, m in zip(dets, det_res, mres):
        res = parse_result(res_line)
        impl_c.append(f"state={res.get('state')} bytes={res.get('bytes')}")
        model_c.append(f"state={m.get('mode')} bytes={m.get('bytes')}")
        if m.get("rem") != "0" or m.get("audio") != audio_md5(d.frames):
            ctx.tie_broken("c14-codec2-replay", f"the model asked Codec2 for other audio than the harness encoded: {d.line()[:120]}")
    ctx.diff_lines("modulator-impl-vs-model", [d.line()[:300] for d in dets], "\n".join(impl_c), "\n".join(model_c))
    spec = SpecEncoder(ctx)
    klines, kidx = [], []
    for i, (d, t) in enumerate(zip(dets, tables)):
        pos = 0
        for ku in d.keyups:
            n = len(ku["frames"])
            klines.append(f"keyup {hx(d.dst)} {hx(d.src)} {''.join(t[pos:pos + n]) or '-'} {','.join(map(str, ku['samples'])) or '-'} {ku['last']}")
            kidx.append(i)
            pos += n
    kres = spec.ask(klines)
    expected = [b""] * len(dets)
    for i, l in zip(kidx, kres):
        expected[i] += bytes.fromhex(parse_result(l)["bytes"])

    # (b) the self-consistency oracle on every collected stream
    streams = []
    for d, l in zip(dets, det_res):
        streams.append({"name": "scripted", "src": d.src, "dst": d.dst, "res": parse_result(l), "replay": {"harness_command": d.line(), "events": ",".join(d.events)}})
    for c, l in zip(rands, rand_res):
        streams.append({"name": "racy", "src": c["src"], "dst": c["dst"], "res": parse_result(l), "replay": {"harness_command": rand_line(c), "case": c}})
    for d, l in zip(setters, set_res):
        streams.append({"name": "callsigns-changed-between-key-ups", "src": d.src, "dst": d.dst, "calls": d.calls, "res": parse_result(l),
                        "replay": {"harness_command": d.line(), "callsigns_per_keyup": d.calls}})
    before = len(ctx.violations)
    nframes = oracle_streams(ctx, spec, streams)
    for s in streams:
        b = s["raw"]
        ctx.case(hashlib.md5(b).hexdigest(), nontrivial=len(b) >= 144)
    # scripted streams must also be exactly the specification's session stream for the audio that was fed
    if len(ctx.violations) == before:
        for d, s, e in zip(dets, streams, expected):
            if s["raw"] != e:
                ctx.violation("modulator-stream-differs-from-spec", "scripted schedule: bytes differ from the specification's stream for the audio fed",
                              {"harness_command": d.line(), "bytes": s["raw"].hex(), "expected": e.hex()})
                break
    ctx.coverage["schedules"] = {"scripted": len(dets), "racy": len(rands), "callsigns_changed_between_key_ups": len(setters)}
    ctx.coverage["frames_reencoded_by_spec"] = nframes
    ctx.coverage["bytes_collected"] = sum(len(s["raw"]) for s in streams)
    ctx.sample({"scripted": dets[1].line()[:160] + " ...", "events": ",".join(dets[1].events)[:120] + " ...", "nbytes": len(streams[1]["raw"]),
                "first_frames": streams[1]["raw"][:144].hex()})
    ctx.sample({"racy": rand_line(rands[0]), "result": {k: v for k, v in streams[len(dets)]["res"].items() if k != "bytes"}})
    ctx.sample({"timeout_driven": dets[-1].line(), "result": {k: v for k, v in streams[len(dets) - 1]["res"].items() if k != "bytes"}})
