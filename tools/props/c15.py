"""C15 — queue is a race-free bounded FIFO under every interleaving.
Tie: (i) sequential differential C++ vs extracted ImplQueue (and oracle vs SpecQueue); (ii) real-thread stress:
response oracle (FIFO / per-producer order / no loss / no duplication / capacity) and, when queue.h carries the
M17CXX_VERIF hook, trace inclusion (the extracted, proved-sound checker accepts every recorded trace);
(iii) the same stress under ThreadSanitizer."""
import os
import re
import subprocess
import concurrent.futures as cf
from vlib import COQ, VERIF

PROPERTY = "C15"
CONSTS = ["queue"]
COQ_TARGETS = ["Properties_C15.vo", "Extract_C15.vo"]
PROPERTIES_FILE = "Properties_C15.v"
LEVEL = "proof"
RULE = ("(i) operation sequences that cannot block (put on non-full, zero-timeout put, get on non-empty or drained-closed, close, "
        "the four queries) on capacities 1..3: close at every fill level systematically + random sequences of length <= 16 "
        "(thorough: all sequences up to length 6 over 8 operation kinds); distinct by text, non-trivial if it contains a put and a get "
        "or a close.  (ii) real-thread stress runs for every (capacity 1..3, producers 1..3, consumers 1..3, closer yes/no), "
        "VERIF_SEED-derived seeds, yields/sleeps; a run is non-trivial if at least one item went through and at least one wait "
        "or refusal happened; distinct by (configuration, seed).  (iii) the same configurations under -fsanitize=thread.")
ASSUMPTIONS = ["model = hand-written ImplQueue.v (small-step semantics of std::mutex / std::condition_variable / clock are trusted); "
               "tie = sequential differential + trace inclusion through the add-only M17CXX_VERIF hook + regenerated lock audit (gen/ConstsQueue.v)",
               "real memory-model effects, fairness and libstdc++'s condition-variable implementation are outside the model",
               "ThreadSanitizer (g++ 12) is used as support for race_free: it sees only the executions that happen"]
TRUSTED = ["ThreadSanitizer runtime of g++ 12.2", "patches/queue-hook.diff (add-only #ifdef M17CXX_VERIF hook in queue.h), when applied"]
EXPLANATION = "proof over the interleaving model ImplQueue.v; correspondence by differential test, trace inclusion and TSan"

MODEL_SCHEDULE_F6 = ("model schedule: T1 invokes close(), acquires the mutex and is at the write of state_ (CWrite, holds mutex); "
                     "T2 executes is_open()/is_closed() whose read of state_ (QRead) is not preceded by a lock: step T2 LRead RdState held=false "
                     "is enabled while mutex = Some T1 - race_free fails (ConstsQueue.lock_is_open / lock_is_closed = false)")


def build_model(ctx):
    ctx.model = ctx.build_ocaml("c15_driver", [COQ / "c15_model.mli", COQ / "c15_model.ml", VERIF / "ocaml" / "c15_driver.ml"])


def hook_present(ctx):
    try:
        return "M17CXX_VERIF" in (ctx.repo / "include/m17cxx/queue.h").read_text()
    except OSError:
        return False


# ------------------------------------------------------------------------------------------------ (i) sequential
def gen_seq_cases(ctx):
    r = ctx.rng.fork("c15-seq")
    cases = []

    def finish(cap, ops):
        cases.append(f"{cap} " + " ".join(ops))

    # close at every fill level, then drain and query
    for cap in (1, 2, 3):
        for k in range(cap + 1):
            ops = [f"p{10 + i}" for i in range(k)] + ["s", "e", "o", "l", f"z{50}", "c", "o", "l", "s", "p60", "z61", "m62"]
            ops += ["g"] * k + ["l", "o", "e", "g", "u", "c", "l"]
            finish(cap, ops)
            ops = [f"p{10 + i}" for i in range(k)] + ["c", "c"] + ["u"] * k + ["l", "g"]
            finish(cap, ops)
    n = 2000 if ctx.tier == "thorough" else 300
    for _ in range(n):
        cap = r.range(1, 3)
        ln, closed, ops, nv = 0, False, [], 1
        for _ in range(r.range(1, 16)):
            k = r.below(12)
            if k <= 2:
                if ln < cap or closed:
                    ops.append(f"{'p' if k else 'm'}{nv}")
                    if not closed:
                        ln += 1
                else:
                    ops.append(f"z{nv}")
                nv += 1
            elif k == 3:
                ops.append(f"z{nv}")
                if ln < cap and not closed:
                    ln += 1
                nv += 1
            elif k <= 6:
                if ln > 0:
                    ops.append("g" if k != 6 else "u")
                    ln -= 1
                elif closed:
                    ops.append("g" if k != 6 else "u")
                else:
                    ops.append("e")
            elif k == 7:
                if r.chance(1, 3):
                    ops.append("c")
                    closed = True
                else:
                    ops.append("s")
            else:
                ops.append("osle"[k - 8])
        finish(cap, ops)
    if ctx.tier == "thorough":
        # all sequences up to length 6 over {p,z,g,c,o,l,s,e}, blocking ones replaced by their non-blocking form
        import itertools
        for cap in (1, 2, 3):
            for L in range(1, 7):
                for seq in itertools.product("pzgcolse", repeat=L):
                    ln, closed, ops, ok = 0, False, [], True
                    for i, ch in enumerate(seq):
                        if ch == "p":
                            if ln >= cap and not closed:
                                ok = False
                                break
                            ops.append(f"p{i + 1}")
                            ln += 0 if closed else 1
                        elif ch == "z":
                            ops.append(f"z{i + 1}")
                            ln += 1 if (ln < cap and not closed) else 0
                        elif ch == "g":
                            if ln == 0 and not closed:
                                ok = False
                                break
                            ops.append("g")
                            ln -= 1 if ln else 0
                        else:
                            ops.append(ch)
                            closed = closed or ch == "c"
                    if ok:
                        finish(cap, ops)
    return cases


def run_seq(ctx, exe):
    cases = gen_seq_cases(ctx)
    text = "\n".join(cases) + "\n"
    (ctx.workdir / "seq_cases.txt").write_text(text)
    rc, impl = ctx.run_exe(exe, ["seq"], input_text=text, timeout=300)
    if rc != 0:
        # find the crashing / hanging case
        for c in cases:
            rc1, out1 = ctx.run_exe(exe, ["seq"], input_text=c + "\n", timeout=10)
            if rc1 != 0:
                ctx.violation("queue-seq-crash", "the queue crashes or hangs on a sequential operation sequence that cannot block",
                              {"case": c, "exit": rc1, "output": out1[-300:], "legend": "p put, z zero-timeout put, m 50ms put, g get, u get_until(now), c close, o is_open, l is_closed, s size, e empty"})
                break
        else:
            ctx.tie_broken("c15-seq-harness", f"harness exited {rc}")
        return
    model = spec = ""
    if getattr(ctx, "model", None):
        _, model = ctx.run_exe(ctx.model, ["seq", "impl"], input_text=text, timeout=600)
        _, spec = ctx.run_exe(ctx.model, ["seq", "spec"], input_text=text, timeout=600)
    for c in cases:
        ops = c.split()[1:]
        nontrivial = ("c" in ops) or (any(o[0] in "pzm" for o in ops) and any(o[0] in "gu" for o in ops))
        ctx.case("seq:" + c, nontrivial)
        ctx.count("seq-cap" + c[0])
    ctx.sample({"sequential_case": cases[5], "implementation": impl.split("\n")[5] if impl else None})
    if model:
        ctx.diff_lines("queue-seq-impl-vs-model", cases, impl, model)
    if spec:
        a, s = impl.strip("\n").split("\n"), spec.strip("\n").split("\n")
        for i, c in enumerate(cases):
            if i < len(a) and i < len(s) and a[i] != s[i]:
                ctx.violation("queue-seq-differs-from-spec", "sequential behaviour differs from the bounded-FIFO specification",
                              {"case": c, "implementation": a[i], "specification": s[i],
                               "legend": "p put, z zero-timeout put, m 50ms put, g get, u get_until(now), c close, o is_open, l is_closed, s size, e empty"})
                break


def run_expiring_puts(ctx, exe):
    """single thread, nobody else on the queue: a put with a finite timeout on a FULL open queue must sit out its deadline, return
    false and leave the queue as it was (capacity respected).  Deterministic; judged against a plain bounded FIFO in Python (the
    extracted model's sequential mode has no clock: it prints BLOCK for this op)."""
    r = ctx.rng.fork("c15-expiring")
    cases = []
    for cap in (1, 2, 3):
        cases.append(f"{cap} " + " ".join([f"p{i + 1}" for i in range(cap)] + ["m50", "s", "m51", "s"] + ["g"] * cap + ["s", "m52", "s", "g", "c", "m53"]))
    for _ in range(12 if ctx.tier == "thorough" else 5):
        cap = r.range(1, 3)
        ops, ln, nv = [], 0, 1
        for _ in range(r.range(4, 10)):
            k = r.below(5)
            if k <= 1 and ln < cap:
                ops.append(f"p{nv}"); ln += 1; nv += 1
            elif k == 2:
                ops.append(f"m{nv}"); nv += 1
                if ln < cap:
                    ln += 1
            elif k == 3 and ln > 0:
                ops.append("g"); ln -= 1
            else:
                ops.append("s")
        cases.append(f"{cap} " + " ".join(ops + ["s"]))
    rc, out = ctx.run_exe(exe, ["seq"], input_text="\n".join(cases) + "\n", timeout=120)
    got = out.strip("\n").split("\n")
    if rc != 0 or len(got) != len(cases):
        ctx.violation("queue-seq-crash", "the queue crashes or hangs on a single-threaded sequence with expiring timed puts",
                      {"cases": cases[:3], "exit": rc, "output": out[-300:]})
        return
    for c, g in zip(cases, got):
        cap = int(c.split()[0]); q, closed, exp = [], False, []
        for o in c.split()[1:]:
            v = int(o[1:]) if len(o) > 1 else 0
            if o[0] in "pm":
                if closed or len(q) >= cap:
                    exp.append("0")
                else:
                    q.append(v); exp.append("1")
            elif o[0] == "g":
                exp.append("v%d" % q.pop(0) if q else "-")
            elif o[0] == "s":
                exp.append(str(len(q)))
            elif o[0] == "c":
                closed = True; exp.append(".")
        ctx.case("seq-expiring:" + c, True)
        ctx.count("seq-expiring-put")
        if g.split() != exp:
            ctx.violation("queue-timed-put-after-deadline", "a put with a finite timeout on a full queue does not fail at its deadline leaving the queue unchanged "
                          "(single thread, no consumer)", {"case": c, "implementation": g, "expected": " ".join(exp),
                                                            "legend": "p put, m 50 ms put, g get, s size, c close"})
            return


# ------------------------------------------------------------------------------------------------ (ii) stress
def parse_events(out):
    evs = []
    for line in out.split("\n"):
        t = line.split()
        if len(t) == 6 and t[1] in ("INV", "LOCK", "WENTER", "WEXIT", "PUSH", "POP", "STATE", "RET", "RESP"):
            evs.append((int(t[0]), t[1], int(t[2]), int(t[3]), int(t[4]), int(t[5])))
    return evs


def oracle(evs, cap, hook):
    """Returns (key, text, detail) for the first property failure visible in the responses, else None."""
    put_inv, put_ok_resp, gets, qsize = {}, {}, [], []
    pending = {}
    for i, (tid, kind, a, b, c, d) in enumerate(evs):
        if kind == "INV":
            pending[tid] = (i, a, b)
            if a == 1:
                put_inv.setdefault(b, i)   # first attempt of this value (retries re-invoke)
                pending[tid] = (i, a, b)
        elif kind == "RESP":
            if a == 1 and b == 1:
                if c in put_ok_resp:
                    return ("queue-item-duplicated", "the same put was accepted twice?", {"value": c})
                put_ok_resp[c] = (pending.get(tid, (i,))[0], i)     # (invocation of the successful attempt, response)
            elif a == 2 and b == 1:
                gets.append((tid, c, i))
            elif a == 4 and c == 2:
                qsize.append(b)
    got = [v for _, v, _ in gets]
    if len(set(got)) != len(got):
        dup = [v for v in got if got.count(v) > 1][0]
        return ("queue-item-duplicated", "an item was handed to two successful gets", {"value": dup})
    ghost = [v for v in got if v not in put_ok_resp]
    if ghost:
        return ("queue-item-invented", "a get returned an item no successful put supplied", {"value": ghost[0]})
    lost = [v for v in put_ok_resp if v not in set(got)]
    if lost:
        return ("queue-item-lost", "an item accepted by put was never delivered although the queue was closed and drained",
                {"values": sorted(lost)[:10]})
    if any(s > cap for s in qsize):
        return ("queue-over-capacity", "size() exceeded the capacity", {"size": max(qsize), "capacity": cap})
    # order: per consumer, never deliver b before a if put(a) had returned before put(b) was invoked;
    # and per (producer, consumer) in the producer's order
    bycons = {}
    for tid, v, i in gets:
        bycons.setdefault(tid, []).append(v)
    for tid, vs in bycons.items():
        last = {}
        for j, v in enumerate(vs):
            p = v // 1000
            if p in last and last[p] > v:
                return ("queue-fifo-order", "a consumer received two items of one producer out of order",
                        {"consumer": tid, "producer": p, "first": last[p], "then": v})
            last[p] = v
        for j in range(len(vs)):
            for k in range(j + 1, min(len(vs), j + 40)):
                if put_ok_resp[vs[k]][1] < put_ok_resp[vs[j]][0]:
                    return ("queue-fifo-order", "a consumer received b before a although put(a) completed before put(b) began",
                            {"consumer": tid, "a": vs[k], "b": vs[j]})
    if hook:
        pushes = [a for _, k, a, *_ in evs if k == "PUSH"]
        pops = [a for _, k, a, *_ in evs if k == "POP"]
        if pops != pushes[:len(pops)]:
            j = next(i for i in range(len(pops)) if i >= len(pushes) or pops[i] != pushes[i])
            return ("queue-fifo-order", "items were popped in an order different from the order they were pushed (hook events under the mutex)",
                    {"index": j, "pushed": pushes[max(0, j - 2):j + 3], "popped": pops[max(0, j - 2):j + 3]})
        occ = 0
        for _, k, *_ in evs:
            occ += (k == "PUSH") - (k == "POP")
            if occ > cap:
                return ("queue-over-capacity", "more items queued than the capacity", {"occupancy": occ, "capacity": cap})
    return None


def stress_configs(ctx, tag, per_config):
    r = ctx.rng.fork(tag)
    out = []
    for cap in (1, 2, 3):
        for P in (1, 2, 3):
            for C in (1, 2, 3):
                for closer in (0, 1):
                    for _ in range(per_config):
                        out.append((cap, P, C, closer, 100 if ctx.tier == "thorough" else 40, r.below(2 ** 31)))
    return out


def run_one(exe, cfg, timeout=60, env=None):
    cap, P, C, closer, N, seed = cfg
    e = dict(os.environ)
    if env:
        e.update(env)
    try:
        p = subprocess.run([str(exe), "stress", *map(str, cfg)], stdout=subprocess.PIPE, stderr=subprocess.PIPE,
                           timeout=timeout, text=True, errors="replace", env=e)
        return p.returncode, p.stdout, p.stderr
    except subprocess.TimeoutExpired as ex:
        return 124, (ex.stdout or b"").decode(errors="replace") if isinstance(ex.stdout, bytes) else (ex.stdout or ""), "[timeout]"


def run_batches(exe, cfgs, timeout=60, env=None, batch=8):
    """Run the configurations 4 at a time; stop launching new batches once a run hung or crashed (each hang costs the
    watchdog's 10 s).  Returns the results of the runs that were made (a prefix of cfgs)."""
    results = []
    with cf.ThreadPoolExecutor(max_workers=4) as ex:
        for i in range(0, len(cfgs), batch):
            part = list(ex.map(lambda c: run_one(exe, c, timeout=timeout, env=env), cfgs[i:i + batch]))
            results += part
            if any(rc not in (0, 66) for rc, _, _ in part):
                break
    return results


def run_stress(ctx, prefix="c15", per_config=None, closer_only=False):
    """Returns the list of (cfg, events) of the completed runs."""
    hook = hook_present(ctx)
    exe = ctx.build_cpp(f"{prefix}_stress", "c15.cpp", hooks=hook)
    if not exe:
        return []
    if per_config is None:
        per_config = 20 if ctx.tier == "thorough" else 1
    cfgs = stress_configs(ctx, prefix + "-stress", per_config)
    if closer_only:
        cfgs = [c for c in cfgs if c[3] == 1]
    ctx.coverage["trace_hook_present"] = hook
    if not hook:
        ctx.notes.append("queue.h has no M17CXX_VERIF hook (patches/queue-hook.diff not applied): trace inclusion skipped, "
                         "response oracle only")
    done = []
    validated = 0
    results = run_batches(exe, cfgs)
    for cfg, (rc, out, err) in zip(cfgs, results):
        name = "cap%d/P%d/C%d/closer%d/seed%d" % (cfg[0], cfg[1], cfg[2], cfg[3], cfg[5])
        cmd = f"{exe} stress " + " ".join(map(str, cfg))
        if rc != 0:
            key = "queue-stress-hang" if (rc in (3, 124) or "HANG" in out) else "queue-stress-crash"
            ctx.violation(key, "real-thread stress run did not finish (a blocked caller was never woken, or the queue never reported closed)"
                          if key.endswith("hang") else "real-thread stress run crashed",
                          {"command": cmd, "exit": rc, "output": (out[-400:] + err[-400:])})
            ctx.case("stress:" + name, True)
            continue
        evs = parse_events(out)
        moved = sum(1 for e in evs if e[1] == "RESP" and e[2] == 2 and e[3] == 1)
        contended = any(e[1] == "WENTER" for e in evs) or any(e[1] == "RESP" and e[2] in (1, 2) and e[3] == 0 for e in evs)
        ctx.case("stress:" + name, moved > 0 and contended)
        ctx.count("stress-P%dC%d" % (cfg[1], cfg[2]))
        bad = oracle(evs, cfg[0], hook)
        if bad:
            (ctx.workdir / f"{prefix}_bad_trace.txt").write_text(out)
            ctx.violation(bad[0], bad[1], dict(bad[2], command=cmd, events=len(evs), trace_file=str(ctx.workdir / f"{prefix}_bad_trace.txt")))
        if hook and getattr(ctx, "model", None):
            rc2, res = ctx.run_exe(ctx.model, ["trace", str(cfg[0])], input_text=out, timeout=300)
            if res.startswith("ACCEPT"):
                validated += 1
            else:
                (ctx.workdir / f"{prefix}_rejected_trace.txt").write_text(out)
                ctx.tie_broken("queue-trace-inclusion", f"recorded execution is not a run of the model: {res.strip()[:200]}; {cmd}; trace kept in "
                               f"{ctx.workdir / (prefix + '_rejected_trace.txt')}")
        done.append((cfg, evs))
    ctx.coverage["traces_validated_against_impl"] = ctx.coverage.get("traces_validated_against_impl", 0) + validated
    ctx.coverage["stress_runs"] = ctx.coverage.get("stress_runs", 0) + len(results)
    if done:
        cfg, evs = done[len(done) // 2]
        ctx.sample({"stress_run": "cap=%d producers=%d consumers=%d closer=%d items/producer=%d seed=%d" % cfg,
                    "first_events": [" ".join(map(str, e)) for e in evs[:14]], "events": len(evs)})
    return done


# ------------------------------------------------------------------------------------------------ (iii) TSan
def run_tsan(ctx):
    exe = ctx.build_cpp("c15_tsan", "c15.cpp", extra=["-g", "-fsanitize=thread", "-DC15_NO_REC"])
    if not exe:
        return
    # does TSan work in this sandbox at all?
    rc, out, err = run_one(exe, (1, 1, 1, 0, 2, 1), timeout=60)
    if "FATAL: ThreadSanitizer" in err or rc not in (0, 66):
        ctx.notes.append("ThreadSanitizer cannot run in this sandbox (" + err.strip()[:120] + "): race_free rests on the model "
                         "theorem and the regenerated lock audit only")
        ctx.coverage["tsan"] = "unavailable"
        return
    per = 8 if ctx.tier == "thorough" else 1
    cfgs = stress_configs(ctx, "c15-tsan", per)
    results = run_batches(exe, cfgs, timeout=120, env={"TSAN_OPTIONS": "halt_on_error=0 report_signal_unsafe=0"})
    reports = 0
    for cfg, (rc, out, err) in zip(cfgs, results):
        ctx.case("tsan:" + "/".join(map(str, cfg)), True)
        ctx.count("tsan-run")
        if "WARNING: ThreadSanitizer" in err:
            reports += 1
            rep = err[err.index("WARNING: ThreadSanitizer"):]
            rep = rep.split("==================")[0][:3000]          # the first report only
            top = " ".join(re.findall(r"#0 ([^\n]*)", rep)[:2])       # innermost frames of the two conflicting accesses
            cmd = f"{exe} stress " + " ".join(map(str, cfg))
            if re.search(r"is_open|is_closed", top):
                ctx.violation("queue-unlocked-state-read",
                              "is_open()/is_closed() read state_ without the mutex while close()/get() write it under the lock (data race)",
                              {"command": cmd, "tsan_report": rep.split("\n")[:40], "model": MODEL_SCHEDULE_F6})
            else:
                ctx.violation("queue-data-race", "ThreadSanitizer reports a data race inside the queue",
                              {"command": cmd, "tsan_report": rep.split("\n")[:40]})
        elif rc not in (0,):
            key = "queue-stress-hang" if (rc in (3, 124) or "HANG" in out) else "queue-stress-crash"
            ctx.violation(key, "stress run under ThreadSanitizer did not finish normally",
                          {"command": f"{exe} stress " + " ".join(map(str, cfg)), "exit": rc, "output": (out[-300:] + err[-600:])})
    ctx.coverage["tsan"] = {"runs": len(results), "runs_with_reports": reports}


def replay(ctx, path):
    """--replay: re-run exactly the recorded case (sequential case or stress command) on implementation and model."""
    import json
    j = json.load(open(path))
    rp = j.get("replay", {})
    exe = ctx.build_cpp("c15_harness", "c15.cpp")
    if "case" in rp and exe:
        c = rp["case"]
        rc, impl = ctx.run_exe(exe, ["seq"], input_text=c + "\n", timeout=20)
        _, spec = ctx.run_exe(ctx.model, ["seq", "spec"], input_text=c + "\n") if getattr(ctx, "model", None) else (0, "")
        ctx.case("replay:" + c)
        ctx.log(f"replay {c!r}: implementation={impl.strip()!r} (exit {rc}) specification={spec.strip()!r}")
        if rc != 0 or impl.strip() != spec.strip():
            ctx.violation(j.get("key", "queue-seq-differs-from-spec"), j.get("what", ""), dict(rp, implementation_now=impl.strip(), exit=rc))
    elif "command" in rp:
        args = rp["command"].split()
        cfg = tuple(int(x) for x in args[-6:])
        tsan = "tsan" in args[0]
        hook = hook_present(ctx)
        exe2 = ctx.build_cpp("c15_tsan", "c15.cpp", extra=["-g", "-fsanitize=thread", "-DC15_NO_REC"]) if tsan else ctx.build_cpp("c15_stress", "c15.cpp", hooks=hook)
        for attempt in range(20 if tsan else 1):     # whether the conflicting accesses overlap depends on the schedule
            rc, out, err = run_one(exe2, cfg, timeout=120)
            if rc != 0 or "WARNING: ThreadSanitizer" in err:
                break
        ctx.case("replay:" + rp["command"])
        bad = None if tsan else oracle(parse_events(out), cfg[0], hook)
        ctx.log(f"replay {rp['command']}: exit {rc}, tsan reports {err.count('WARNING: ThreadSanitizer')}, oracle {bad}")
        if rc != 0 or "WARNING: ThreadSanitizer" in err or bad:
            ctx.violation(j.get("key", "queue-stress"), j.get("what", ""), dict(rp, exit_now=rc, stderr=err[:1500]))
    else:
        ctx.log("replay file has no re-runnable case; running the whole check")
        return False
    return True


def run_wakeups(ctx, exe, which=("consumers", "producers")):
    """lost-wakeup scenarios: K callers blocked, K releasing operations back to back; nobody may stay blocked"""
    trials = 60 if ctx.tier == "thorough" else 12
    rc, out = ctx.run_exe(exe, ["wakeups", trials], timeout=600)
    ctx.evaluations += trials * 4
    ctx.count("wakeup-scenarios", trials * 4)
    m = re.search(r"LOST-WAKEUP kind=(\w+) (.*)", out)
    if m and m.group(1) in which:
        kind = m.group(1)
        if kind == "consumers":
            ctx.violation("queue-lost-wakeup-consumer", "accepted items sit in the open queue while a consumer blocked in get() is never woken "
                          "(K consumers blocked on an empty queue, K puts back to back)", {"harness": "c15_harness wakeups", "observed": m.group(0)})
        else:
            ctx.violation("queue-lost-wakeup-producer", "a producer blocked in put() on a full queue is never woken although room was made "
                          "(K producers blocked, K gets back to back)", {"harness": "c15_harness wakeups", "observed": m.group(0)})
    elif rc != 0 or ("wakeups ok" not in out and not m):
        ctx.tie_broken("c15-wakeups-harness", f"exit {rc}: {out[-200:]}")


def run(ctx):
    if ctx.replay_in and replay(ctx, ctx.replay_in):
        return
    exe = ctx.build_cpp("c15_harness", "c15.cpp")
    if exe:
        run_seq(ctx, exe)
        run_expiring_puts(ctx, exe)
        run_wakeups(ctx, exe)
    run_stress(ctx)
    run_tsan(ctx)
    # a lock missing according to the source audit, with the model-level schedule as the replay if TSan was silent
    gen = (COQ / "gen" / "ConstsQueue.v").read_text()
    missing = re.findall(r"Definition (lock_\w+) : bool := false", gen)
    if missing and not any(v[0] in ("queue-unlocked-state-read", "queue-data-race") for v in ctx.violations):
        ctx.violation("queue-unlocked-state-read" if any(m in ("lock_is_open", "lock_is_closed") for m in missing) else "queue-data-race",
                      "a public method accesses queue_/size_/state_ before (or without) taking the mutex",
                      {"methods": missing, "model": MODEL_SCHEDULE_F6, "source": "include/m17cxx/queue.h (lock audit of tools/consts/queue.py)"})
