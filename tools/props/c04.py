"""C04 — Golay(24,12): correspondence (Golay24.h vs extracted ImplGolay / ImplGolayFast, the whole LUT) and the
property oracle on the real code (exhaustive in C++: every data word x every pattern of weight <= 4, every
24-bit word; encoder against the extracted specification; decode() under the sanitizers)."""
import itertools
import re
from concurrent.futures import ThreadPoolExecutor

from vlib import COQ, VERIF

PROPERTY = "C04"
CONSTS = ["golay"]
COQ_TARGETS = ["Properties_C04.vo", "Extract_C04.vo"]
PROPERTIES_FILE = "Properties_C04.v"
LEVEL = "proof"
RULE = ("received words r = encode24(d) xor e: 64 data words d (0, 0xFFF, 0xD78, the 12 unit words, random) x all 12951 error "
        "patterns e of weight 0..4 in 24 bits; 10^5 uniformly random 24-bit words; all 4096 data words through encode24; 2000 "
        "random 32-bit arguments of syndrome()/parity(); the table search on one word per syndrome; all 2048 LUT rows; "
        "thorough: all 2^24 words in 65536 blocks.  The oracle runs on the C++ alone over the whole domain (4096 x 12951 "
        "patterns, 2^24 words).  A case is non-trivial if the word is not a codeword; distinct by received word.")
ASSUMPTIONS = ["model = hand-written ImplGolay.v (std::lower_bound as libstdc++'s loop, proved equal to the partition point on the "
               "domain; constexpr quicksort modelled by an insertion sort on the proved-distinct keys, the C++ LUT is dumped and "
               "compared row by row); bulk comparison through ImplGolayFast.v, proved equal to ImplGolay.v on 24-bit inputs",
               "domain: decode() inputs below 2^24 (the only caller builds 24-bit words); with bit 24 set the search returns "
               "LUT.end() (Example c04_end_outside_domain)",
               "Golay24 observed through encode24/decode (+ encode23, syndrome, parity, and the public constexpr LUT)"]
EXPLANATION = ("Golay24.h is modelled as it is now (acceptance rule popcount(correction) < 3 || !parity(output), fix d138ea7); "
               "all three decode statements are proved for all 2^24 words and evaluated exhaustively on the compiled code.")

NPAR = 12


def build_model(ctx):
    ctx.model = ctx.build_ocaml("c04_driver", [COQ / "c04_model.mli", COQ / "c04_model.ml", VERIF / "ocaml" / "c04_driver.ml"])


def patterns(maxw=4, nbits=24):
    out = []
    for w in range(maxw + 1):
        for pos in itertools.combinations(range(nbits), w):
            e = 0
            for p in pos:
                e |= 1 << p
            out.append((e, w))
    return out


def run_parallel(ctx, exe, args, lines, timeout=3000):
    """run exe on chunks of the case lines in parallel; returns (rc, concatenated output)"""
    if not lines:
        return 0, ""
    n = max(1, min(NPAR, len(lines) // 2000 + 1))
    size = (len(lines) + n - 1) // n
    chunks = [lines[i:i + size] for i in range(0, len(lines), size)]
    with ThreadPoolExecutor(max_workers=n) as ex:
        res = list(ex.map(lambda c: ctx.run_exe(exe, args, input_text="\n".join(c) + "\n", timeout=timeout), chunks))
    rc = max(r[0] for r in res)
    return rc, "".join(r[1] if r[1].endswith("\n") or not r[1] else r[1] + "\n" for r in res)


def encode24_py(enc, d):
    return enc[d]


def run(ctx):
    thorough = ctx.tier == "thorough"
    exe = ctx.build_cpp("c04_harness", "c04.cpp")
    model = getattr(ctx, "model", None)
    r = ctx.rng.fork("c04")

    # ------------------------------------------------------------------ the table
    if exe and model:
        rc1, lut_cpp = ctx.run_exe(exe, ["lut"])
        rc2, lut_model = ctx.run_exe(model, ["lut"])
        rows = [f"LUT row {i}" for i in range(2048)]
        bad = ctx.diff_lines("golay-lut-rows", rows, lut_cpp, lut_model)
        ctx.coverage["lut_rows_compared"] = len(lut_cpp.strip().split("\n"))
        ctx.evaluations += 2048
        ctx.count("lut-row", 2048)
        ctx.sample({"lut_row_1": lut_cpp.split("\n")[1] if lut_cpp else None})

    # ------------------------------------------------------------------ encoder: all 4096 data words
    enc_cases = [f"enc {d:03x}" for d in range(4096)]
    enc_cpp = {}
    if exe:
        rc, out = ctx.run_exe(exe, input_text="\n".join(enc_cases) + "\n")
        lines = out.strip("\n").split("\n")
        for d, l in zip(range(4096), lines):
            m = re.fullmatch(r"enc24=([0-9a-f]+)", l)
            enc_cpp[d] = int(m.group(1), 16) if m else None
        if model:
            rcm, outm = ctx.run_exe(model, ["impl"], input_text="\n".join(enc_cases) + "\n")
            ctx.diff_lines("golay-encode24-impl-vs-model", enc_cases, out, outm)
            rcs, outs = ctx.run_exe(model, ["spec"], input_text="\n".join(enc_cases) + "\n")
            sl = outs.strip("\n").split("\n")
            for d, (a, b) in enumerate(zip(lines, sl)):
                if a != b:
                    ctx.violation("golay-encode-differs-from-spec",
                                  "encode24 is not the systematic encoder of the cyclic code g=0xC75 extended by even parity",
                                  {"data_word": f"0x{d:03x}", "implementation": a, "specification": b})
                    break
        ctx.evaluations += 4096
        ctx.count("encode24", 4096)
        for d in range(1, 4096):
            ctx.distinct.add(("enc", d))

    # ------------------------------------------------------------------ decode cases
    pats = patterns(4)
    assert len(pats) == 12951
    words = [0x000, 0xFFF, 0xD78] + [1 << i for i in range(12)]
    while len(words) < 64:
        d = r.below(4096)
        if d not in words:
            words.append(d)
    cases, meta = [], []
    if enc_cpp and all(v is not None for v in enc_cpp.values()):
        for d in words:
            c = enc_cpp[d]
            for e, w in pats:
                cases.append(f"dec {c ^ e:06x}")
                meta.append((d, e, w))
    # the decoder is a function of its argument: the same word presented again, and words that differ only in the parity bit
    # presented alternately, must be judged as on their first visit (a memo / cache kept between calls must not show)
    if enc_cpp and all(v is not None for v in enc_cpp.values()):
        heavy = [(e, w) for e, w in pats if w in (3, 4)]
        nrep = 4000 if thorough else 800
        for _ in range(nrep):
            d = words[r.below(len(words))]
            e, w = heavy[r.below(len(heavy))]
            c = enc_cpp[d]
            e2 = e ^ 1                                  # the neighbour across the overall parity bit
            w2 = bin(e2).count("1")
            for (ee, ww) in ((e, w), (e, w), (e2, w2), (e, w), (e2, w2), (e2, w2)):
                if ww <= 4:
                    cases.append(f"dec {c ^ ee:06x}")
                    meta.append((d, ee, ww))
        ctx.count("revisited-and-parity-neighbour-sequences", nrep)
    ctx.count("codeword+weight0", 64)
    for w, n in ((1, 24), (2, 276), (3, 2024), (4, 10626)):
        ctx.count(f"codeword+weight{w}", 64 * n)
    n_struct = len(cases)
    nrand = 100000
    for _ in range(nrand):
        cases.append(f"dec {r.below(1 << 24):06x}")
        meta.append(None)
    ctx.count("random-24-bit-word", nrand)
    aux = []
    for _ in range(2000):
        aux.append(f"syn {r.below(1 << 32):08x}")
    for _ in range(500):
        aux.append(f"enc23 {r.below(4096):03x}")
    # the table search, one word per syndrome (each LUT row is hit) + random words
    for e, w in patterns(3, 23):
        aux.append(f"idx {(e << 1) | r.below(2):06x}")
    for _ in range(1000):
        aux.append(f"idx {r.below(1 << 24):06x}")
    ctx.count("syndrome/parity/encode23/search", len(aux))
    (ctx.workdir / "cases.txt").write_text("\n".join(cases + aux) + "\n")

    impl_lines = []
    if exe:
        rc, impl_out = ctx.run_exe(exe, input_text="\n".join(cases) + "\n", timeout=600)
        if rc != 0:
            ctx.tie_broken("c04-harness-run", f"harness exited {rc}: {impl_out[-300:]}")
        impl_lines = impl_out.strip("\n").split("\n")
        rc, aux_impl = ctx.run_exe(exe, input_text="\n".join(aux) + "\n", timeout=600)
        if model:
            # (i) bulk: the trie-based model (proved equal to the faithful one on the domain)
            rcm, fast_out = run_parallel(ctx, model, ["fast"], cases)
            bad = ctx.diff_lines("golay-decode-impl-vs-model", cases, impl_out, fast_out)
            # (ii) the faithful model (list + lower_bound) on a sub-sample, and on the auxiliary cases
            step = 40 if thorough else 250
            sub = list(range(0, len(cases), step)) + [i for i in bad[:50]]
            sub_cases = [cases[i] for i in sub]
            rcm, faithful_out = run_parallel(ctx, model, ["impl"], sub_cases)
            ctx.diff_lines("golay-decode-impl-vs-faithful-model", sub_cases, "\n".join(impl_lines[i] for i in sub if i < len(impl_lines)) + "\n", faithful_out)
            ctx.coverage["faithful_model_cases"] = len(sub_cases)
            rcm, aux_model = run_parallel(ctx, model, ["impl"], aux)
            ctx.diff_lines("golay-aux-impl-vs-model", aux, aux_impl, aux_model)
        ctx.evaluations += len(cases) + len(aux)
        for c, mt in zip(cases, meta):
            if mt is None or mt[1] != 0:
                ctx.distinct.add(int(c[4:], 16))
        ctx.sample({"case": cases[5], "data_word": f"0x{meta[5][0]:03x}", "error": f"0x{meta[5][1]:06x}", "impl": impl_lines[5] if len(impl_lines) > 5 else None})
        ctx.sample({"case": cases[-1], "impl": impl_lines[-1] if impl_lines else None})

        # ---------------------------------------------------------------- oracle (c): exhaustive, on the C++ alone
        rc, out = ctx.run_exe(exe, ["oracle"], timeout=1800)
        ol = out.strip().split("\n")
        ctx.coverage["exhaustive_oracle"] = ol
        what = {
            "systematic": ("golay-encode-not-systematic", "encode24(d) >> 12 != d"),
            "evenparity": ("golay-codeword-odd-parity", "a codeword has odd parity"),
            "linear": ("golay-encode-nonlinear", "encode24(a ^ b) != encode24(a) ^ encode24(b)"),
            "minweight8": ("golay-min-weight", "a non-zero codeword has weight < 8"),
            "correctable-rejected": ("golay-correctable-rejected", "an error of weight <= 3 on a codeword is rejected by Golay24::decode"),
            "wrong-data": ("golay-wrong-data", "Golay24::decode reports success with other data after an error of weight <= 3"),
            "fourbit-accepted": ("golay-4bit-accepted", "a 4-bit error on a codeword is accepted by Golay24::decode"),
            "unsound-accept": ("golay-unsound-accept", "Golay24::decode reports success on a word farther than 3 from the codeword of the returned data"),
            "lookup-misses-row": ("golay-lookup-misses-row", "the table search of decode() ends at LUT.end() or on a row with another syndrome for a 24-bit input"),
        }
        byw = [l for l in ol if l.startswith("rejected-correctable-by-weight=")]
        seen = set()
        for l in ol:
            m = re.fullmatch(r"([a-z0-9-]+)=(\d+)/(\d+) first=(\S+)", l)
            if not m:
                continue
            seen.add(m.group(1))
            ctx.evaluations += int(m.group(3))
            if int(m.group(2)) != 0 and m.group(1) in what:
                key, text = what[m.group(1)]
                f = dict(x.split("=") for x in m.group(4).split(":") if "=" in x)
                replay = {"failing": int(m.group(2)), "of": int(m.group(3)), "first": m.group(4)}
                if m.group(1) == "correctable-rejected" and byw:
                    replay["rejected_by_error_weight_over_all_4096_codewords"] = byw[0].split("=", 1)[1]
                if "d" in f and "e" in f and enc_cpp.get(int(f["d"], 16)) is not None:
                    d, e = int(f["d"], 16), int(f["e"], 16)
                    replay.update({"data_word": f"0x{d:03x}", "codeword": f"0x{enc_cpp[d]:06x}", "error_pattern": f"0x{e:06x}",
                                   "error_weight": bin(e).count("1"), "received": f"{enc_cpp[d] ^ e:06x}"})
                    rc2, o2 = ctx.run_exe(exe, input_text=f"dec {enc_cpp[d] ^ e:06x}\n")
                    replay["actual"] = o2.strip()
                elif "r" in f:
                    replay["received"] = f["r"]
                ctx.violation(key, text, replay)
        if rc != 0 or set(what) - seen:
            ctx.tie_broken("c04-oracle-run", f"exhaustive oracle exited {rc} / incomplete output: {out[-300:]}")
        acc = [l for l in ol if l.startswith("accepted=")]
        ctx.sample({"exhaustive_oracle": ol[4:9]})
        if acc and acc[0] != f"accepted={4096 * 2325}" and not ctx.violations:
            ctx.violation("golay-accepted-count", "number of accepted 24-bit words is not 4096 * 2325", {"actual": acc[0], "expected": 4096 * 2325})

        # ---------------------------------------------------------------- oracle (a): the statements on the cases of this run
        for i, (c, mt) in enumerate(zip(cases, meta)):
            if mt is None or i >= len(impl_lines):
                continue
            d, e, w = mt
            l = impl_lines[i]
            m = re.fullmatch(r"ok=1 out=([0-9a-f]+)", l)
            replay = {"data_word": f"0x{d:03x}", "codeword": f"0x{enc_cpp[d]:06x}", "error_pattern": f"0x{e:06x}", "error_weight": w,
                      "received": c.split()[1], "actual": l}
            if w <= 3 and not m:
                replay["expected"] = f"decode returns true with output >> 12 == 0x{d:03x}"
                ctx.violation("golay-correctable-rejected", f"a {w}-bit error on a codeword is rejected by Golay24::decode", replay)
                break
            if w <= 3 and (int(m.group(1), 16) >> 12) != d:
                replay["expected"] = f"output >> 12 == 0x{d:03x}"
                ctx.violation("golay-wrong-data", f"Golay24::decode reports success with other data after a {w}-bit error", replay)
                break
            if w == 4 and m:
                replay["expected"] = "decode returns false"
                ctx.violation("golay-4bit-accepted", "a 4-bit error on a codeword is accepted by Golay24::decode", replay)
                break
        # (b) against the bounded-distance decoder of the specification (slow: a sample)
        if model:
            ns = 160 if thorough else 48
            pick = [r.below(max(1, n_struct)) for _ in range(ns // 2)] + [n_struct + r.below(nrand) for _ in range(ns // 2)]
            pc = [cases[i] for i in pick if i < len(cases)]
            rcs, spec_out = run_parallel(ctx, model, ["spec"], pc)
            sl = spec_out.strip("\n").split("\n")
            for i, c, s in zip(pick, pc, sl):
                a = impl_lines[i] if i < len(impl_lines) else "?"
                m = re.fullmatch(r"ok=1 out=([0-9a-f]+)", a)
                canon = f"ok=1 data={int(m.group(1), 16) >> 12:03x}" if m else a
                ctx.evaluations += 1
                if canon != s:
                    ctx.violation("golay-differs-from-bounded-distance-decoder",
                                  "Golay24::decode differs from the radius-3 bounded-distance decoder of the specification",
                                  {"received": c.split()[1], "implementation": a, "specification": s})
                    break
            ctx.coverage["spec_decoder_sample"] = len(pc)

        # ---------------------------------------------------------------- oracle (d): no undefined behaviour in decode() on any 24-bit input (ASan+UBSan).
        # NB: neither g++'s nor clang's ASan puts red zones around the inline constexpr LUT, so a read at LUT.end() would NOT be
        # reported here; that the search stays inside the table is c04_lookup_never_end + the "lookup-misses-row" sweep above.
        san = ctx.build_cpp("c04_harness_san", "c04.cpp", sanitize=True)
        if san:
            rc, out = ctx.run_exe(san, ["sweep"], timeout=1800)
            ctx.coverage["sanitizer_sweep"] = out.strip()[-200:]
            ctx.evaluations += 1 << 24
            if rc != 0:
                m = re.search(r"(ERROR: AddressSanitizer[^\n]*|runtime error[^\n]*)", out)
                ctx.violation("golay-decode-undefined-behaviour", "sanitizer report inside Golay24::decode for a 24-bit input",
                              {"sanitizer": m.group(1) if m else out[-400:], "command": "c04_harness_san sweep (decode of every r < 2^24)"})

    # ------------------------------------------------------------------ thorough: all 2^24 words, C++ vs model, block digests
    if thorough and exe and model:
        blocks = [f"blk {hi:04x}" for hi in range(1 << 16)]
        rc, bo = ctx.run_exe(exe, input_text="\n".join(blocks) + "\n", timeout=1800)
        rcm, bm = run_parallel(ctx, model, ["fast"], blocks, timeout=6000)
        bad = ctx.diff_lines("golay-all-2^24-words-impl-vs-model", blocks, bo, bm)
        ctx.evaluations += 1 << 24
        ctx.count("exhaustive-24-bit-word", 1 << 24)
        ctx.coverage["exhaustive_blocks"] = len(blocks)
        for b in bad[:3]:
            hi = int(blocks[b].split()[1], 16)
            ws = [f"dec {(hi << 8) | lo:06x}" for lo in range(256)]
            rc, a = ctx.run_exe(exe, input_text="\n".join(ws) + "\n")
            rcm, m_ = ctx.run_exe(model, ["fast"], input_text="\n".join(ws) + "\n")
            ctx.diff_lines(f"golay-block-{hi:04x}", ws, a, m_)
