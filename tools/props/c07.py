"""C07 - receive path is memory-safe and UB-free.

Tie / oracle = MODEL VERDICT <=> SANITIZER VERDICT.
 (a) harness/c07_app.cpp (apps/m17-demod.cpp included, main renamed) built with ASan + UBSan + float-cast-overflow +
     _GLIBCXX_ASSERTIONS; every case in a forked child; the same cases go to the extracted ImplApp / ImplAx25 /
     ImplRxIndex.  Per case: model faults <=> the child dies; the text written to stderr, the stdout byte counts and
     the blocks handed to codec2 are compared as well.
 (b) harness/c07_rx.cpp: the real M17Demodulator<float> + handle_frame under the sanitizers on sample streams |x| <= 1,
     asserting the documented index ranges after every sample.
 (c) the real M17FrameDecoder (+ handle_frame) under the sanitizers on frames (command `dec` of c07_app).
Any death / sanitizer report / range assertion on the real code is a violation with the concrete input as replay."""
import concurrent.futures as cf
import os
import subprocess
import sys
import time
from pathlib import Path

from vlib import COQ, VERIF, sh

sys.path.insert(0, str(VERIF / "tools"))
import bbgen  # noqa: E402
import m17ref  # noqa: E402

PROPERTY = "C07"
CONSTS = ["app", "golay", "callsign", "correlator"]
COQ_TARGETS = ["Properties_C07.vo", "Extract_C07.vo"]
PROPERTIES_FILE = "Properties_C07.v"
LEVEL = "proof"
RULE = ("app-handler callback sequences (structured + random LSFs with every TYPE low byte, addresses around 40^k and >= 40^9, packet "
        "sequences with every control byte / counter / EOF / length incl. EOF+0 first after a RAW LSF, valid AX.25 packets of every "
        "info length 0..60 with random extension bits, stream frames around the cost limits, PRBS and random BERT frames, garbage), "
        "ax25 strings of every length 0..60, callsigns, framer histories, LICH fragments 0..7, clock estimates; Correlator op scripts "
        "(sample histories around multiples of 80, correlate at every position, outer_symbol_levels 0..9 / 10..79 / >= 80, apply 0..255) and "
        "SyncWord call scripts on a scripted correlator (every index 0..9 and >= 10, trigger / peak sequences); sample streams "
        "(noise, constants, tones, squares, impulses, full scale, M17 stream/packet/BERT basebands with corruption, truncation, "
        "concatenation) >= 2 s each; decoder frames (random, saturated, zero, valid with flips, all sync-type sequences <= 4). "
        "A case is non-trivial if it reaches at least one handler / one sample; distinct by content.")
ASSUMPTIONS = ["models = hand-written ImplApp.v / ImplAx25.v / ImplRxIndex.v / ImplCorrelator.v with checked accesses; tie = model fault <=> sanitizer death on the cases of this run",
               "finite clock estimate in [0,10] from the floating-point Kalman filter (hypothesis of c07_sample_index_in_range) is exercised by the sanitizer runs, not proved",
               "the demodulator's control state is not modelled: c07_sample_index_sources_in_range quantifies over every order of the index-touching blocks of M17Demodulator.h (closed list checked by tools/consts/correlator.py); Correlator / SyncWord sample values are abstract",
               "codec2_decode writes exactly 160 samples and reads 8 bytes (libcodec2, mode 3200; checked by the harness at start-up)",
               "Viterbi / Golay / depuncture / callsign-codec index obligations are proved in C02 / C04 / C11 / C17, here only exercised under the sanitizers",
               "Blaze is replaced by harness/shim/blaze: the Kalman numerics exercised are those of the shim"]
TRUSTED = ["AddressSanitizer / UBSan (-fsanitize=address,undefined,float-cast-overflow -fno-sanitize-recover=all) and libstdc++ _GLIBCXX_ASSERTIONS as the implementation-side fault detector",
           "libcodec2 (uninstrumented) ; Boost.CRC"]

EXPLANATION = ("Coq theorems: no checked access of the models faults, for all inputs (handlers, AX.25 parser, framer, LICH, clock post-processing under the "
               "stated estimate hypothesis). Tie: model fault <=> death of the real code under ASan/UBSan/_GLIBCXX_ASSERTIONS on the cases of this run; "
               "the floating-point estimators and the standard library are only exercised (sanitizer runs), not proved.")

SAN_EXTRA = ["-fsanitize=float-cast-overflow"]
LIBS = ["-lcodec2", "-lboost_program_options"]


# ------------------------------------------------------------------------------------------------ builds
def build_model(ctx):
    ctx.model = ctx.build_ocaml("c07_driver", [COQ / "c07_model.mli", COQ / "c07_model.ml", VERIF / "ocaml" / "c07_driver.ml"])


def build_harnesses(ctx, names=("c07_app", "c07_rx")):
    extra = SAN_EXTRA + [f"-I{ctx.repo}/apps"]
    with cf.ThreadPoolExecutor(max_workers=4) as ex:
        futs = {n: ex.submit(ctx.build_cpp, n, n + ".cpp", True, False, extra, LIBS) for n in names}
        return {n: f.result() for n, f in futs.items()}


def run_lines(exe, text, args=(), timeout=900):
    e = dict(os.environ)
    e["ASAN_OPTIONS"] = "detect_leaks=0:abort_on_error=1"
    e["UBSAN_OPTIONS"] = "print_stacktrace=1"
    try:
        p = subprocess.run([str(exe), *args], input=text.encode(), stdout=subprocess.PIPE, stderr=subprocess.PIPE, timeout=timeout, env=e)
        return p.returncode, p.stdout.decode(errors="replace"), p.stderr.decode(errors="replace")
    except subprocess.TimeoutExpired:
        return 124, "", "[timeout]"


# ------------------------------------------------------------------------------------------------ AX.25 / packet helpers
def x25_fcs(data):
    crc = 0xFFFF
    for b in data:
        crc ^= b
        for _ in range(8):
            crc = (crc >> 1) ^ 0x8408 if crc & 1 else crc >> 1
    return crc ^ 0xFFFF


def ax25_addr(call, ssid, last, rng=None):
    b = bytearray((ord(c) << 1) & 0xFF for c in call.ljust(6)[:6])
    b.append(0x60 | ((ssid & 15) << 1) | (1 if last else 0))
    if rng is not None:      # random address-extension bits inside the callsign characters
        for i in range(6):
            if rng.chance(1, 6):
                b[i] |= 1
    return bytes(b)


def ax25_frame(rng, nrep, info_len, kind):
    calls = ["APRS", "W1AW", "N0CALL", "WIDE1", "WIDE2", "K", "AB1CDE", "Q  X"]
    body = bytearray()
    body += ax25_addr(rng.choice(calls), rng.below(16), False, rng)
    body += ax25_addr(rng.choice(calls), rng.below(16), nrep == 0, rng)
    for i in range(nrep):
        body += ax25_addr(rng.choice(calls), rng.below(16), i == nrep - 1, rng)
    ctl = {0: 0x03, 1: 0x00 | (rng.below(8) << 1 & 0xFE), 2: 0x01 | (rng.below(4) << 2), 3: rng.below(256)}[kind]
    body.append(ctl & 0xFF)
    if (ctl & 3) == 3:
        body.append(rng.choice([0xF0, 0xCF, 0x01, rng.below(256)]))
    body += bytes(rng.choice([rng.range(32, 126), rng.below(256)]) for _ in range(info_len))
    fcs = x25_fcs(body)
    return bytes(body) + bytes([fcs & 0xFF, fcs >> 8])


def packet_segments(payload):
    """split a packet payload into 26-byte packet callbacks' buffers (25 data bytes + control byte)"""
    segs = []
    n = 0
    while len(payload) - 25 * n > 25:
        segs.append(payload[25 * n:25 * n + 25] + bytes([(n & 31) << 2]))
        n += 1
    last = payload[25 * n:]
    segs.append(last.ljust(25, b"\0") + bytes([0x80 | (len(last) << 2)]))
    return segs


def lsf_with_type(rng, typ, dst=None, src=None):
    d = dst if dst is not None else rng.bytes(6)
    s = src if src is not None else rng.bytes(6)
    body = d + s + typ.to_bytes(2, "big") + rng.bytes(14)
    return body + (m17ref.crc16(body).to_bytes(2, "big") if rng.chance(3, 4) else rng.bytes(2))


def cb(kind, data=b"", cost=0):
    return f"{kind}:{cost}" if kind == "I" else f"{kind}:{data.hex()}:{cost}"


COSTS = [0, 1, 5, 59, 60, 61, 69, 70, 71, 79, 80, 81, 82, 100, 127, 128, 255, 1000, 65535, 2147483647, -1, -70, -2147483648]


# ------------------------------------------------------------------------------------------------ case generators
def gen_app_cases(ctx):
    r = ctx.rng.fork("c07-app")
    thorough = ctx.tier == "thorough"
    mult = 6 if thorough else 1
    cases = []

    def add(kind, flags, cbs):
        cases.append("app " + flags + " " + ";".join(cbs))
        ctx.count("app:" + kind)

    flagsets = ["00", "10", "01", "11"]
    # 1. LSF alone: every low TYPE byte, a few high bytes; display on and off
    for lo in range(256):
        for hi in ([0, 0x07] if not thorough else [0, 1, 3, 7, 0x80, 0xFF]):
            add("lsf-type", "10" if (lo + hi) % 4 else "00", [cb("L", lsf_with_type(r, (hi << 8) | lo), r.choice(COSTS))])
    # 2. addresses around 40^k, >= 40^9, broadcast
    addrs = []
    for k in range(0, 10):
        for d in (-1, 0, 1):
            v = 40 ** k + d
            if 0 <= v < 1 << 48:
                addrs.append(v)
    addrs += [40 ** 9 + 40 ** 8, 0xEE6B28000000, (1 << 48) - 1, (1 << 48) - 2, 0, 39, 40 ** 9 - 1, 0xFFFFFFFFFF00, 0x0000FFFFFFFF]
    addrs += [r.below(1 << 48) for _ in range(60 * mult)]
    for v in addrs:
        a = v.to_bytes(6, "big")
        cases.append("call " + a.hex()); ctx.count("call")
        add("lsf-address", "10", [cb("L", lsf_with_type(r, 0x0005 | (r.below(16) << 7), dst=a, src=r.choice(addrs).to_bytes(6, "big")), 0)])
    # 3. packet frames: every control byte as the first frame after each kind of packet LSF (incl. EOF + length 0 after RAW)
    for ptype in range(4):
        lsf = lsf_with_type(r, ptype << 1)
        for ctl in range(256):
            k = "P" if ptype == 1 else "F"
            add("pkt-first", "10" if ctl & 1 else "00", [cb("L", lsf), cb(k, r.bytes(25) + bytes([ctl]), r.choice(COSTS))])
    # every control byte with no LSF at all, and after a stream LSF
    for ctl in range(0, 256, 1 if thorough else 3):
        add("pkt-nolsf", "00", [cb("P", r.bytes(25) + bytes([ctl]))])
        add("pkt-direct-full", "00", [cb("X", r.bytes(25) + bytes([ctl])), cb("X", r.bytes(25) + bytes([r.below(256)]))])
    # counter runs: correct counters 0..n-1 then EOF with every length; wrong counters; counter saturation at 32; repeated EOFs
    for n in list(range(0, 35)) + [40]:
        for ln in ([0, 1, 24, 25, 26, 31] if not thorough else range(32)):
            seq = [cb("L", lsf_with_type(r, 1 << 1))]
            for i in range(n):
                seq.append(cb("P", r.bytes(25) + bytes([((i & 31) << 2) | r.below(4)])))
            seq.append(cb("P", r.bytes(25) + bytes([0x80 | (ln << 2) | r.below(4)])))
            if r.chance(1, 3):
                seq.append(cb("P", r.bytes(25) + bytes([0x80 | (r.below(32) << 2)])))
                seq.append(cb("P", r.bytes(25) + bytes([r.below(32) << 2])))
            add("pkt-run", "10", seq)
    for _ in range(60 * mult):
        seq = [cb("L", lsf_with_type(r, r.below(4) << 1))] if r.chance(3, 4) else []
        for i in range(r.range(1, 12)):
            seq.append(cb(r.choice("PFX"), r.bytes(25) + bytes([r.below(256)]), r.choice(COSTS)))
        add("pkt-random", r.choice(flagsets), seq)
    # 4. valid AX.25 packets (CRC residue matches -> ax25_frame::parse + write), every info length 0..60
    for info_len in range(0, 61):
        for rep in range(2 * mult):
            nrep = r.choice([0, 0, 1, 2, 3, 8])
            payload = ax25_frame(r, nrep, info_len, r.below(4))
            seq = [cb("L", lsf_with_type(r, 1 << 1))] + [cb("P", s) for s in packet_segments(payload)]
            # what follows shows the stream state that write() leaves behind (hex) in the sequence-error message
            seq.append(cb("P", r.bytes(25) + bytes([r.range(10, 31) << 2])))
            if r.chance(1, 2):
                seq.append(cb("L", lsf_with_type(r, 1 << 1)))
                for i in range(r.range(0, 12)):
                    seq.append(cb("P", r.bytes(25) + bytes([i << 2])))
                seq.append(cb("P", r.bytes(25) + bytes([r.range(13, 31) << 2])))
            add("pkt-ax25", r.choice(["00", "10"]), seq)
    # truncated / damaged AX.25 with a *valid* CRC (the parser sees any byte string of any length)
    for ln in range(0, 64):
        for rep in range(2 * mult):
            body = bytearray(r.bytes(ln))
            if ln >= 14 and r.chance(2, 3):
                for i in range(ln):           # mostly "more addresses follow"
                    body[i] &= 0xFE
                if r.chance(1, 2):
                    body[r.below(ln)] |= 1
            fcs = x25_fcs(body)
            payload = bytes(body) + bytes([fcs & 0xFF, fcs >> 8])
            add("pkt-ax25-garbage", "00", [cb("L", lsf_with_type(r, 1 << 1))] + [cb("P", s) for s in packet_segments(payload)])
    # 5. stream frames: every cost of interest x EOS bit x flags
    for cost in COSTS:
        for b0 in (0x00, 0x7F, 0x80, 0xFF):
            for fl in flagsets:
                add("stream", fl, [cb("S", bytes([b0]) + r.bytes(17), cost)])
    for _ in range(40 * mult):
        add("stream-run", r.choice(flagsets), [cb("L", lsf_with_type(r, 5 | (r.below(16) << 7)))] +
            [cb("S", (((i & 0x7FFF) | (0x8000 if r.chance(1, 8) else 0)).to_bytes(2, "big")) + r.bytes(16), r.choice(COSTS)) for i in range(r.range(1, 8))])
    # 6. BERT: real PRBS9 frames (the validator locks, counts, unlocks) and random ones
    for _ in range(6 * mult):
        state = 1
        seq = []
        for i in range(r.range(2, 12)):
            bits, state = m17ref.prbs9(197, state)
            if r.chance(1, 3):
                for _ in range(r.range(1, 60)):
                    bits[r.below(197)] ^= 1
            seq.append(cb("B", m17ref.bytes_of_bits(bits)))
        add("bert-prbs", "00", seq)
    for _ in range(30 * mult):
        add("bert-random", "00", [cb("B", r.bytes(25), r.choice(COSTS)) for _ in range(r.range(1, 4))])
    # 7. garbage: every kind mixed
    for _ in range(150 * mult):
        seq = []
        for i in range(r.range(1, 10)):
            k = r.choice("LISPFBX")
            n = {"L": 30, "I": 0, "S": 18, "P": 26, "F": 26, "B": 25, "X": 26}[k]
            data = r.bytes(n) if r.chance(3, 4) else bytes([r.choice([0, 0xFF, 0x80])] * n)
            seq.append(cb(k, data, r.choice(COSTS)))
        add("garbage", r.choice(flagsets), seq)
    return cases


def gen_ax25_cases(ctx):
    r = ctx.rng.fork("c07-ax25")
    mult = 8 if ctx.tier == "thorough" else 1
    cases = []
    for ln in range(0, 61):
        for rep in range(6 * mult):
            b = bytearray(r.bytes(ln))
            mode = r.below(4)
            if mode == 0:                      # all addresses say "more follow"
                for i in range(ln):
                    b[i] &= 0xFE
            elif mode == 1 and ln:             # extension bits random only in the SSID bytes
                for i in range(ln):
                    if i % 7 != 6:
                        b[i] &= 0xFE
            elif mode == 2 and ln > 7:         # spaces (0x40 >> 1 == ' ') in the callsigns
                for i in range(ln):
                    if r.chance(1, 3):
                        b[i] = 0x40 | (b[i] & 1)
            cases.append("ax25 " + (bytes(b).hex() or "-")); ctx.count("ax25:random")
    for info_len in range(0, 61, 1 if mult > 1 else 3):
        for nrep in (0, 1, 2, 8):
            f = ax25_frame(r, nrep, info_len, r.below(4))
            cases.append("ax25 " + f.hex()); ctx.count("ax25:wellformed")
            cut = r.below(len(f) + 1)
            cases.append("ax25 " + (f[:cut].hex() or "-")); ctx.count("ax25:truncated")
    return cases


def lich_frame_bits(lsf30, n, chunk=None, flips=0, rng=None):
    """368 soft values of a stream frame carrying LICH fragment n (or explicit 6 chunk bytes)"""
    if chunk is None:
        chunk = lsf30[5 * (n % 6):5 * (n % 6) + 5] + bytes([(n & 7) << 5])
    bits = m17ref.bits_of_bytes(chunk)
    lich = []
    for k in range(4):
        d = int("".join(map(str, bits[12 * k:12 * k + 12])), 2)
        cw = m17ref.golay_encode24(d)
        lich += [(cw >> (23 - i)) & 1 for i in range(24)]
    for _ in range(flips):
        lich[rng.below(96)] ^= 1
    return chunk, lich


def gen_rxidx_cases(ctx):
    """returns (impl_lines, model_lines) aligned"""
    r = ctx.rng.fork("c07-rxidx")
    mult = 5 if ctx.tier == "thorough" else 1
    impl, model = [], []
    # framer histories
    for n in [0, 1, 183, 184, 185, 367, 368, 369, 400, 552, 736, 737] + [r.below(1200) for _ in range(20 * mult)]:
        h = r.bytes(2 * n).hex() or "-"
        impl.append("framer " + h); model.append("framer " + h); ctx.count("framer")
    # LICH fragments 0..7 into a prefilled LSF buffer
    for _ in range(6 * mult):
        lsf = m17ref.make_lsf("W1AW", "N0CALL", can=r.below(16))
        for n in range(8):
            prefill = r.bytes(30)
            chunk = r.bytes(5) + bytes([(n << 5) | r.below(32)])
            chunk, lich = lich_frame_bits(lsf, n, chunk=chunk)
            data = [r.below(2) for _ in range(272)]
            frame = m17ref.randomize(m17ref.interleave(lich + data))
            impl.append(f"lichframe {m17ref.soft_hex(m17ref.soft(frame, 7))} {prefill.hex()}")
            model.append(f"lichcopy {chunk.hex()} {prefill.hex()}"); ctx.count("lich-fragment")
            # unpack_lich on the same LICH (0..2 flips per word stay correctable; the model is given the corrected bits)
            deint = m17ref.soft(lich + data, [r.range(1, 127) for _ in range(368)])
            impl.append(f"unpackframe {m17ref.soft_hex(m17ref.soft(frame, 7))}")
            model.append(f"unpack {m17ref.soft_hex(deint)}"); ctx.count("unpack-lich")
    # clock estimates: update(uint8_t) sees [0,10) from the Kalman filter; update() any finite value
    for i in range(0, 160):
        impl.append(f"clk {i} 16"); model.append(f"clk {i} 16"); ctx.count("clock")
    for i in [r.range(-4000, 4000) for _ in range(60 * mult)] + list(range(-40, 200, 3)):
        impl.append(f"clk0 {i} 16"); model.append(f"clk0 {i} 16"); ctx.count("clock")
    return impl, model



def gen_corr_cases(ctx):
    """op scripts for the real Correlator<float> / SyncWord<> (harness) and their index models; same text for both sides"""
    r = ctx.rng.fork("c07-corr")
    mult = 5 if ctx.tier == "thorough" else 1
    cases, misuse = [], []

    def samples(n, start=1):
        return [f"s{(start + k) % 97 + 1}" for k in range(n)]

    # positions after n samples, n around the multiples of the buffer size; correlate + the other readers at the end
    for n in [0, 1, 9, 10, 11, 69, 70, 71, 79, 80, 81, 159, 160, 161, 239, 240, 241, 800] + [r.below(400) for _ in range(10 * mult)]:
        cases.append("corr " + ",".join(samples(n) + ["c", f"o{r.below(10)}", f"a{r.below(10)}", "c"])); ctx.count("corr:history")
    # correlate after every sample over two turns of the buffer (every prev_buffer_pos_)
    cases.append("corr " + ",".join(x for k in range(170) for x in (f"s{k % 50 + 1}", "c"))); ctx.count("corr:correlate-every-pos")
    # outer_symbol_levels / apply: every index of interest, on a full and on a fresh buffer
    for i in list(range(0, 80)) + [80, 81, 89, 90, 100, 127, 128, 200, 255]:
        pre = samples(r.choice([0, 37, 80, 123]))
        (cases if i < 80 else misuse).append("corr " + ",".join(pre + [f"o{i}", "s5", f"o{(i + 3) % 10}"])); ctx.count("corr:osl" if i < 80 else "corr:osl-outside-precondition")
    for i in range(0, 256, 1 if mult > 1 else 3):
        cases.append("corr " + ",".join(samples(r.choice([0, 85])) + [f"a{i}"])); ctx.count("corr:apply")
    for _ in range(20 * mult):
        ops = []
        for _ in range(r.range(5, 200)):
            k = r.below(12)
            ops.append(f"s{r.range(-99, 99)}" if k < 8 else "c" if k < 10 else f"o{r.below(10)}" if k == 10 else f"a{r.below(256)}")
        cases.append("corr " + ",".join(ops)); ctx.count("corr:random")
    # SyncWord on the scripted correlator
    for i in list(range(0, 10)) + [10, 11, 79, 255]:
        (cases if i < 10 else misuse).append(f"sw 0:{i},5:{i},-7:{(i + 1) % 10},u,0:{i},u,u,3:{i},0:0,u"); ctx.count("sw:index" if i < 10 else "sw:index-outside-precondition")
    for _ in range(40 * mult):
        ops = []
        for _ in range(r.range(1, 60)):
            k = r.below(10)
            ops.append("u" if k == 0 else f"0:{r.below(10)}" if k < 4 else f"{r.range(-50, 50)}:{r.below(10)}")
        bad = r.chance(1, 8)
        if bad:
            ops.append(f"{r.range(1, 9)}:{r.range(10, 300)}")
            ops.append("0:0")
        (misuse if bad else cases).append("sw " + ",".join(ops)); ctx.count("sw:random-outside-precondition" if bad else "sw:random")
    return cases, misuse


def gen_dec_cases(ctx):
    r = ctx.rng.fork("c07-dec")
    thorough = ctx.tier == "thorough"
    mult = 5 if thorough else 1
    cases = []

    def fr(sync, soft):
        return f"{sync}:{m17ref.soft_hex(soft)}:1"

    def rnd():
        return [r.range(-128, 127) for _ in range(368)]

    lsfs = [m17ref.make_lsf("W1AW", "N0CALL", can=3), m17ref.make_lsf("AB1CDE", "", typ=2), m17ref.make_lsf("X", "Y", typ=4), m17ref.make_lsf("X", "Y", typ=0)]
    specials = [[127] * 368, [-128] * 368, [0] * 368, [127, -128] * 184, [1] * 368, [-1] * 368]
    # every sync-type sequence of length <= 4, with random / special / valid frames
    import itertools
    for ln in range(1, 5):
        for seq in itertools.product("LSPB", repeat=ln):
            frames = []
            for s in seq:
                k = r.below(4)
                if k == 0:
                    soft = rnd()
                elif k == 1:
                    soft = r.choice(specials)
                else:
                    lsf = r.choice(lsfs)
                    bits = {"L": lambda: m17ref.frame_lsf(lsf),
                            "S": lambda: m17ref.frame_stream(lsf, r.below(6), r.below(1 << 15), r.bytes(16), eos=r.chance(1, 4)),
                            "P": lambda: m17ref.frame_packet(r.bytes(25), r.chance(1, 3), r.below(32)),
                            "B": lambda: m17ref.frame_bert(m17ref.prbs9(197, r.range(1, 511))[0])}[s]()
                    soft = m17ref.soft(bits, [r.range(1, 127) for _ in range(368)])
                    for _ in range(r.choice([0, 0, 3, 30])):
                        i = r.below(368); soft[i] = -soft[i]
                frames.append(fr(s, soft))
            cases.append("dec " + r.choice(["00", "10", "11"]) + " " + ";".join(frames)); ctx.count(f"dec:syncseq{ln}")
    # whole transmissions through the decoder: stream with all LICH fragments, packets with AX.25, BERT
    for _ in range(8 * mult):
        lsf = r.choice(lsfs[:1])
        frames = [fr("L", m17ref.soft(m17ref.frame_lsf(lsf), 7))]
        for i in range(r.range(6, 14)):
            frames.append(fr("S", m17ref.soft(m17ref.frame_stream(lsf, i % 6, i, r.bytes(16), eos=(i == 13)), r.choice([7, 1, 127]))))
        cases.append("dec 10 " + ";".join(frames)); ctx.count("dec:stream")
        # LICH-only acquisition (no LSF frame), fragment numbers 0..7
        lsf2 = lsfs[0]
        frames = []
        for n in r.shuffle(list(range(8)) + list(range(6))):
            chunk, lich = lich_frame_bits(lsf2, n)
            frames.append(fr("S", m17ref.soft(m17ref.randomize(m17ref.interleave(lich + [r.below(2) for _ in range(272)])), 7)))
        cases.append("dec 10 " + ";".join(frames)); ctx.count("dec:lich")
        payload = ax25_frame(r, r.choice([0, 1, 2]), r.below(61), 0)
        for ptype in (1, 2, 0):
            frames = [fr("L", m17ref.soft(m17ref.frame_lsf(m17ref.make_lsf("W1AW", "N0CALL", typ=ptype << 1)), 7))]
            segs = packet_segments(payload)
            for s in segs:
                frames.append(fr("P", m17ref.soft(m17ref.frame_packet(s[:25], bool(s[25] & 0x80), (s[25] >> 2) & 31), 7)))
            frames.append(fr("P", m17ref.soft(m17ref.frame_packet(r.bytes(25), True, 0), 7)))    # after EOF: must not reach the handler
            frames.append(fr("P", rnd()))
            cases.append("dec 10 " + ";".join(frames)); ctx.count("dec:packet")
        state = 1
        frames = []
        for i in range(6):
            bits, state = m17ref.prbs9(197, state)
            frames.append(fr("B", m17ref.soft(m17ref.frame_bert(bits), 7)))
        cases.append("dec 00 " + ";".join(frames)); ctx.count("dec:bert")
    for _ in range(40 * mult):
        frames = [fr(r.choice("LSPB"), rnd() if r.chance(2, 3) else r.choice(specials)) for _ in range(r.range(1, 8))]
        cases.append("dec " + r.choice(["00", "10"]) + " " + ";".join(frames)); ctx.count("dec:random")
    return cases


# ------------------------------------------------------------------------------------------------ streams for (b)
def gen_streams(ctx, outdir):
    """writes int16 files; returns [(name, path, divisor, invert, blanker)]"""
    r = ctx.rng.fork("c07-rx")
    thorough = ctx.tier == "thorough"
    taps = bbgen.rrc_taps(ctx.repo)
    N = 2 * bbgen.RATE + 4800
    streams = []

    def put(name, samples, divisor=32767, invert=0, blanker=0):
        p = outdir / (name + ".raw")
        samples = [(-32767 if x < -32767 else x) for x in samples]     # |x| <= 1 after division by 32767
        bbgen.write_raw(p, samples)
        streams.append((name, p, divisor, invert, blanker))
        ctx.count("stream:" + name.split("-")[0])

    for i, amp in enumerate([0.001, 0.01, 0.1, 0.5, 1.0]):
        put(f"noise-{i}", bbgen.noise(N, amp, r))
    put("gauss-0", bbgen.gauss_noise(N, 0.3, r))
    for i, lv in enumerate([0.0, 1.0, -1.0, 0.25]):
        put(f"const-{i}", bbgen.constant(N, lv))
    for f in (1200, 2400, 4800):
        put(f"tone-{f}", bbgen.tone(N, f, 0.8))
    put("tone-2400fs", bbgen.tone(N, 2400, 1.0, 0.3))
    for f in (600, 1200, 2400):
        put(f"square-{f}", bbgen.square(N, f, 1.0))
    for per in (10, 80, 1920, 4801):
        put(f"impulse-{per}", bbgen.impulses(N, per, 1.0, 1 if per != 80 else 3))
    put("fullscale-alt", [32767 if i % 2 else -32767 for i in range(N)])
    put("fullscale-rand", [32767 if r.chance(1, 2) else -32767 for _ in range(N)])
    put("fullscale-sym", [(32767 if (i // 10) % 2 else -32767) for i in range(N)])

    def stream_bb(nframes, inv=False, can=None):
        tx = bbgen.tx_bytes_stream(r.choice(["W1AW", "AB1CDE", "N0CALL-9"]), r.choice(["N0CALL", "", "A"]), r.below(16) if can is None else can, nframes, r)
        return bbgen.baseband(m17ref.PREAMBLE * r.choice([0, 1, 10]) + tx, taps, invert=inv)

    lead = lambda n: bbgen.noise(n, 0.01, r)
    clean = lead(4800) + stream_bb(60) + lead(4800)
    put("m17-clean", clean, divisor=41067)
    put("m17-clean-fs", clean, divisor=32767)
    put("m17-inverted", lead(4800) + stream_bb(60, inv=True) + lead(4800), divisor=41067, invert=1)
    put("m17-wrongpol", lead(4800) + stream_bb(60, inv=True) + lead(4800), divisor=41067, invert=0)
    put("m17-bursts-noise", bbgen.corrupt_bursts(clean, r, 40, 2000, "noise"), divisor=41067)
    put("m17-bursts-zero", bbgen.corrupt_bursts(clean, r, 40, 3000, "zero"), divisor=41067, blanker=1)
    put("m17-bursts-sat", bbgen.corrupt_bursts(clean, r, 60, 1500, "sat"), divisor=41067)
    put("m17-bursts-flip", bbgen.corrupt_bursts(clean, r, 30, 5000, "flip"), divisor=41067)
    put("m17-noisy", bbgen.add(clean, bbgen.gauss_noise(len(clean), 0.08, r)), divisor=41067, blanker=1)
    put("m17-truncated", (lead(4800) + stream_bb(60))[:4800 + 60000] + lead(40000), divisor=41067)
    cat = lead(4800) + stream_bb(40)[:-(r.range(1, 3000))] + stream_bb(40)[r.range(1, 3000):] + stream_bb(45) + lead(2400) + stream_bb(30)[:20000]
    put("m17-concat", cat, divisor=41067)
    put("m17-offset", [bbgen.clip16(x + 3000) for x in clean], divisor=41067)
    # packet-mode and BERT transmissions (own shaping; long preamble so that the LSF can be caught)
    pay = ax25_frame(r, 1, 40, 0)
    segs = [(s[:25], bool(s[25] & 0x80), (s[25] >> 2) & 31) for s in packet_segments(pay)]
    pk = []
    for ptype in (1, 2, 0):
        pk += bbgen.baseband(m17ref.PREAMBLE * 24 + bbgen.tx_bytes_packet(ptype, segs + [(r.bytes(25), False, i) for i in range(3)], r), taps) + lead(2400)
    put("m17-packet", lead(4800) + pk + lead(4800), divisor=41067)
    put("m17-bert", lead(4800) + bbgen.baseband(m17ref.PREAMBLE * 10 + bbgen.tx_bytes_bert(60), taps) + lead(4800), divisor=41067)
    put("m17-bert-bursts", bbgen.corrupt_bursts(lead(4800) + bbgen.baseband(bbgen.tx_bytes_bert(70), taps) + lead(4800), r, 30, 3000, "noise"), divisor=41067)
    if thorough:
        for i in range(110):
            base = lead(r.range(0, 9600)) + stream_bb(r.range(30, 90), inv=r.chance(1, 4)) + lead(r.range(0, 9600))
            kind = r.below(6)
            if kind == 0:
                s = bbgen.corrupt_bursts(base, r, r.range(1, 80), r.range(10, 6000), r.choice(["noise", "zero", "sat", "flip"]))
            elif kind == 1:
                s = bbgen.add(base, bbgen.gauss_noise(len(base), r.choice([0.02, 0.05, 0.1, 0.2, 0.4]), r))
            elif kind == 2:
                c = r.below(len(base)); s = base[:c] + base[r.below(len(base)):]
            elif kind == 3:
                s = bbgen.add(base, bbgen.tone(len(base), r.choice([50, 1200, 2400, 4800, 7000]), r.choice([0.05, 0.3])))
            elif kind == 4:
                g = r.choice([0.05, 0.3, 1.3]); s = [bbgen.clip16(x * g) for x in base]
            else:
                s = bbgen.noise(r.range(1, 30000), r.choice([0.01, 1.0]), r) + base
            if len(s) < N:
                s = s + lead(N - len(s))
            put(f"m17rand-{i}", s, divisor=r.choice([41067, 32767]), invert=r.below(2), blanker=r.below(2))
        for i in range(20):
            put(f"noise-t{i}", bbgen.gauss_noise(N, r.choice([0.001, 0.03, 0.2, 0.6]), r))
    return streams


# ------------------------------------------------------------------------------------------------ classification of a death
def death_key(case, done, report):
    t = case.split()
    if t[0] == "app":
        cbs = t[2].split(";")
        k = cbs[done][0] if done < len(cbs) else "?"
        rep = report.lower()
        if k == "L":
            return "demod-lsf-oob-index", "m17-demod's LSF handler faults (bounds-checked build)"
        if k in "PFX":
            if "front" in rep or "empty()" in rep:
                return "demod-empty-packet-front", "m17-demod's packet handler calls front() on an empty vector"
            if "ax25" in rep or "basic_string" in rep or "length_error" in rep or "out_of_range" in rep:
                return "demod-ax25-parse-fault", "ax25_frame::parse faults inside the packet handler"
            return "demod-packet-segment-oob", "m17-demod's packet handler faults"
        if k == "S":
            return "demod-audio-fault", "m17-demod's audio handler faults"
        if k == "B":
            return "demod-bert-fault", "m17-demod's BERT handler faults"
        return "demod-handler-fault", "m17-demod's frame handler faults"
    return {"ax25": ("ax25-parse-fault", "ax25_frame::parse / write faults"),
            "call": ("callsign-decode-fault", "decode_callsign faults"),
            "framer": ("framer-index-oob", "M17Framer (LLR mode) faults"),
            "lichframe": ("lich-decode-fault", "decode_lich / unpack_lich faults"),
            "unpackframe": ("lich-decode-fault", "decode_lich / unpack_lich faults"),
            "clk": ("clock-index-fault", "ClockRecovery::update(uint8_t) faults"),
            "clk0": ("clock-index-fault", "ClockRecovery::update() faults"),
            "corr": ("correlator-index-oob", "Correlator sample / correlate / outer_symbol_levels / apply leaves buffer_ or tmp"),
            "sw": ("syncword-index-oob", "SyncWord::operator() stores outside samples_"),
            "dec": ("decoder-fault", "M17FrameDecoder (+ handle_frame) faults on a frame sequence")}.get(t[0], ("rx-fault", "receive path faults"))


def split_report(line):
    if "\t#" in line:
        a, b = line.split("\t#", 1)
        return a.rstrip(), b
    return line.rstrip(), ""


def canon(line):
    line = line.strip()
    return "DIED" if line == "| DIED" else line


def run_differential(ctx, exe, name, impl_cases, model_cases, check_model=True, oracle=True):
    """run harness + model on aligned case lists; record tie breaks and violations; returns harness lines.
    oracle=False: the cases call the code OUTSIDE its precondition (a death is the expected outcome, the model must fault too):
    only the correspondence is checked."""
    text = "\n".join(impl_cases) + "\n"
    (ctx.workdir / f"{name}.cases.txt").write_text(text)
    rc, out, err = run_lines(exe, text)
    if rc != 0:
        ctx.tie_broken(f"{name}-harness-run", f"harness exited {rc}: {(out[-200:] + err[-300:])}")
    raw = out.split("\n")
    if raw and raw[-1] == "":
        raw.pop()
    lines, reports = [], []
    for l in raw:
        a, b = split_report(l)
        lines.append(canon(a)); reports.append(b)
    mlines = None
    if check_model and getattr(ctx, "model", None):
        mtext = "\n".join(model_cases) + "\n"
        rc2, mout, merr = run_lines(ctx.model, mtext)
        if rc2 != 0:
            ctx.tie_broken(f"{name}-model-run", f"model driver exited {rc2}: {merr[-300:]}")
        mlines = [l.strip() for l in mout.split("\n")]
        if mlines and mlines[-1] == "":
            mlines.pop()
    for i, c in enumerate(impl_cases):
        ctx.case(c, nontrivial=True)
    # oracle on the real code: no death, no write outside the LSF buffer, no packet callback after EOF
    reported = set()
    for i, l in enumerate(lines):
        if i >= len(impl_cases) or not oracle:
            break
        key = None
        if l.endswith("DIED"):
            done = l.count(" | ")
            key, what = death_key(impl_cases[i], done, reports[i])
        elif "WROTE-OUTSIDE-LSF" in l:
            key, what = "lich-copy-outside-lsf", "decode_lich copies a LICH fragment outside output_buffer.lsf (fragment number > 5 not rejected before the copy)"
        elif "PACKET-AFTER-EOF" in l:
            key, what = "decoder-packet-after-eof", "the decoder hands a packet frame to the handler after the EOF frame (current_packet grows without bound)"
        if key and key not in reported:
            reported.add(key)
            msite = None
            if getattr(ctx, "model", None) and check_model:
                _, ms, _ = run_lines(ctx.model, model_cases[i] + "\n", args=["sites"])
                msite = ms.strip()[-300:]
            ctx.violation(key, what, {"case": impl_cases[i], "model_case": model_cases[i], "implementation": l[-600:], "sanitizer_report": reports[i][:1500],
                                      "model": msite, "how": f"echo '<case>' | build/C07/{Path(exe).name}"})
    if mlines is not None:
        ctx.diff_lines(f"{name}-impl-vs-model", impl_cases, "\n".join(lines) + "\n", "\n".join(mlines) + "\n")
    return lines


def run_streams(ctx, rx, streams):
    def one(s):
        name, path, divisor, invert, blanker = s
        rc, out, err = run_lines(rx, "", args=[str(path), str(divisor), str(invert), str(blanker)], timeout=1200)
        return s, rc, out, err
    results = []
    with cf.ThreadPoolExecutor(max_workers=14) as ex:
        for s, rc, out, err in ex.map(one, streams):
            results.append((s, rc, out, err))
    decoded = 0
    for (name, path, divisor, invert, blanker), rc, out, err in results:
        ctx.case("stream:" + name)
        line = out.strip().split("\n")[-1] if out.strip() else ""
        if rc != 0 or not line.startswith("ok "):
            if line.startswith("RANGE"):
                key, what = "rx-index-out-of-range", "a demodulator index left its documented range"
            elif line.startswith("input sample"):
                ctx.tie_broken("c07-rx-input", f"{name}: {line}")
                continue
            else:
                key, what = "rx-stream-fault", "the demodulator / decoder / handlers fault on a sample stream (sanitizer report)"
            keep = VERIF / "replays" / f"C07-stream-{ctx.seed}-{name}.raw"
            keep.parent.mkdir(exist_ok=True)
            try:
                keep.write_bytes(Path(path).read_bytes())
            except OSError:
                pass
            ctx.violation(key, what, {"stream": name, "file": str(keep), "divisor": divisor, "invert": invert, "noise_blanker": blanker,
                                      "exit": rc, "stdout": out[-400:], "stderr": err[-1800:],
                                      "how": f"build/C07/c07_rx {keep} {divisor} {invert} {blanker}"})
        else:
            f = dict(x.split("=") for x in line.split()[1:])
            if int(f.get("stream", 0)) + int(f.get("bert", 0)) + int(f.get("basic", 0)) + int(f.get("full", 0)) > 0:
                decoded += 1
            ctx.coverage.setdefault("streams", {})[name] = line
    ctx.coverage["streams_with_decoded_frames"] = decoded
    return results


def replay(ctx, app, rx):
    """./check C07 --replay <file>: exactly the recorded input on the implementation and on the model"""
    import json
    rp = json.load(open(ctx.replay_in)).get("replay", {})
    if "case" in rp and app:
        has_model = rp["case"].split()[0] != "dec"
        lines = run_differential(ctx, app, "replay", [rp["case"]], [rp.get("model_case", rp["case"])], check_model=has_model)
        ctx.sample({"replayed_case": rp["case"][:300], "implementation": lines[0][-300:] if lines else None})
    elif "file" in rp and rx:
        res = run_streams(ctx, rx, [(rp["stream"], rp["file"], rp["divisor"], rp["invert"], rp["noise_blanker"])])
        ctx.sample({"replayed_stream": rp["file"], "result": res[0][2].strip()[-300:]})
    else:
        ctx.tie_broken("replay", "the replay file holds no concrete input (it records a broken proof / correspondence only)")


def run(ctx):
    t0 = time.time()
    exes = build_harnesses(ctx)
    ctx.log(f"harness builds {time.time() - t0:.1f}s")
    app, rx = exes.get("c07_app"), exes.get("c07_rx")
    if ctx.replay_in:
        return replay(ctx, app, rx)
    if app:
        cases = gen_app_cases(ctx) + gen_ax25_cases(ctx)
        lines = run_differential(ctx, app, "app", cases, cases)
        ctx.sample({"case": cases[0][:160], "implementation": lines[0][:200] if lines else None})
        impl, model = gen_rxidx_cases(ctx)
        l2 = run_differential(ctx, app, "rxidx", impl, model)
        ctx.sample({"case": model[40][:120] if len(model) > 40 else None, "implementation": l2[40][:120] if len(l2) > 40 else None})
        ccases, cmisuse = gen_corr_cases(ctx)
        l4 = run_differential(ctx, app, "corr", ccases, ccases)
        run_differential(ctx, app, "corr-outside-precondition", cmisuse, cmisuse, oracle=False)
        ctx.sample({"case": ccases[3][:120], "implementation": l4[3][:160] if len(l4) > 3 else None})
        dcases = gen_dec_cases(ctx)
        l3 = run_differential(ctx, app, "dec", dcases, dcases, check_model=False)
        ctx.sample({"case": dcases[5][:100] + "...", "implementation": l3[5][:200] if len(l3) > 5 else None})
        ctx.log(f"handler/decoder cases done {time.time() - t0:.1f}s")
    if rx:
        sdir = ctx.workdir / "streams"
        sdir.mkdir(exist_ok=True)
        streams = gen_streams(ctx, sdir)
        ctx.log(f"{len(streams)} streams generated {time.time() - t0:.1f}s")
        res = run_streams(ctx, rx, streams)
        ctx.sample({"stream": res[0][0][0], "result": res[0][2].strip()[:200]})
        for s in streams:
            try:
                os.unlink(s[1])
            except OSError:
                pass
        ctx.log(f"streams done {time.time() - t0:.1f}s")
