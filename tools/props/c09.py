"""C09 — CRC-16: correspondence (C++ engine vs extracted ImplCRC) and property oracle
(C++ engine vs extracted SpecCRC; residue zero; exhaustive single/double/burst classes)."""
from vlib import COQ, VERIF
from m17ref import crc16 as R_crc16

PROPERTY = "C09"
CONSTS = ["crc"]
COQ_TARGETS = ["Properties_C09.vo", "Extract_C09.vo"]
PROPERTIES_FILE = "Properties_C09.v"
LEVEL = "proof"
RULE = ("byte strings of length 0..64 (4096 thorough): random, all-00, all-FF, one non-zero byte at each position, each followed "
        "by its own CRC; error patterns (single, double, burst<=16, random) on 30-byte frames; exhaustive single/double/burst "
        "classes on N frames run on the C++ alone; reused-engine sequences; every register value (2^16 two-byte prefixes); the engine's "
        "use sites in M17FrameDecoder: LSFs corrupted before encoding (all 240 single-bit, random double-bit, bursts<=16, CRC-field "
        "errors with zero low/high residue byte) through decode_lsf and through the LICH reassembly must never be reported, the "
        "valid frame must.  A case is non-trivial if the message is non-empty; distinct by content.")
ASSUMPTIONS = ["model = hand-written ImplCRC.v; tie = differential run on the cases of this run + regenerated template arguments",
               "CRC engine observed through reset()/operator()/get()/get_bytes() only"]


def build_model(ctx):
    ctx.model = ctx.build_ocaml("c09_driver", [COQ / "c09_model.mli", COQ / "c09_model.ml", VERIF / "ocaml" / "c09_driver.ml"])


def hexs(b):
    return b.hex() if b else "-"


def gen_cases(ctx):
    r = ctx.rng.fork("c09")
    thorough = ctx.tier == "thorough"
    cases = []
    maxlen = 4096 if thorough else 64
    cases.append("crc -")
    for s in (b"A", b"123456789"):
        cases.append("crc " + hexs(s))
    for n in range(1, 65):
        cases.append("crc " + hexs(bytes(n)))
        cases.append("crc " + hexs(b"\xff" * n))
    for n in (1, 2, 3, 30, 64):
        for pos in range(n):
            m = bytearray(n)
            m[pos] = r.range(1, 255)
            cases.append("crc " + hexs(bytes(m)))
    for _ in range(2000 if thorough else 400):
        n = r.range(0, 64) if not r.chance(1, 10) else r.range(0, maxlen)
        cases.append("crc " + hexs(r.bytes(n)))
    # error patterns on 30-byte frames
    for _ in range(400 if thorough else 120):
        m = r.bytes(30)
        e = bytearray(30)
        kind = r.below(4)
        if kind == 0:
            i = r.below(240); e[i >> 3] ^= 0x80 >> (i & 7)
        elif kind == 1:
            i = r.below(240); j = r.below(240)
            e[i >> 3] ^= 0x80 >> (i & 7)
            if j != i:
                e[j >> 3] ^= 0x80 >> (j & 7)
        elif kind == 2:
            i = r.below(240)
            w = r.range(1, 0xFFFF) | 0x8000
            for k in range(16):
                if (w >> (15 - k)) & 1 and i + k < 240:
                    e[(i + k) >> 3] ^= 0x80 >> ((i + k) & 7)
        else:
            e = bytearray(r.bytes(30))
        ctx.count(["single", "double", "burst", "random"][kind])
        cases.append(f"err {hexs(m)} {hexs(bytes(e))}")
    # operation sequences on ONE reused engine object (reset / feed / get / get_bytes in any order)
    for _ in range(600 if thorough else 150):
        ops = []
        for _ in range(r.range(2, 40)):
            c = r.below(10)
            ops.append("R" if c == 0 else "G" if c <= 2 else "B" if c == 3 else "%02x" % r.below(256))
        if r.chance(3, 4):
            ops.insert(0, "R")
        ctx.count("engine-reuse-sequence")
        cases.append("seq " + " ".join(ops))
    # crc(byte, reg) from EVERY 16-bit register value, for a few byte values
    for b in [0x00, 0xFF, 0x80, 0x01] + [r.below(256) for _ in range(12 if thorough else 2)]:
        ctx.count("register-sweep")
        cases.append("sweep %02x" % b)
    return cases


def canon_impl(line):
    """the C++ harness prints the whole 65536-entry dump; reduce it to the digest form the model driver prints"""
    if line.startswith("SWEEP "):
        import hashlib
        d = line[6:]
        return hashlib.md5(d.encode()).hexdigest() + " " + d[:64]
    return line


def run(ctx):
    r0 = ctx.rng.fork("c09-all3")
    exe = ctx.build_cpp("c09_harness", "c09.cpp")
    cases = gen_cases(ctx)
    text = "\n".join(cases) + "\n"
    (ctx.workdir / "cases.txt").write_text(text)
    impl_out = model_out = spec_out = ""
    if exe:
        rc, impl_out = ctx.run_exe(exe, input_text=text)
        if rc != 0:
            ctx.tie_broken("c09-harness-run", f"harness exited {rc}: {impl_out[-300:]}")
        impl_out = "\n".join(canon_impl(l) for l in impl_out.split("\n"))
    if getattr(ctx, "model", None):
        rc, model_out = ctx.run_exe(ctx.model, ["impl"], input_text=text)
        rc2, spec_out = ctx.run_exe(ctx.model, ["spec"], input_text=text)
    for c in cases:
        ctx.case(c, nontrivial=(c != "crc -"))
        ctx.count("len<=64" if len(c) < 140 else "long")
    ctx.sample({"case": cases[3], "impl": impl_out.split("\n")[3] if impl_out else None})
    ctx.sample({"case": cases[-1][:120], "impl": impl_out.strip().split("\n")[-1] if impl_out else None})
    # (i) correspondence: implementation vs extracted ImplCRC
    if exe and getattr(ctx, "model", None):
        ctx.diff_lines("crc-impl-vs-model", cases, impl_out, model_out)
    # (ii) property oracle on the real code: equals the specification's CRC, residue zero, errors detected
    if exe:
        a = impl_out.strip("\n").split("\n")
        s = spec_out.strip("\n").split("\n") if spec_out else None
        for i, c in enumerate(cases):
            if i >= len(a):
                break
            if c.startswith("crc"):
                if s and i < len(s) and a[i].split()[0:2] != s[i].split()[0:2]:
                    ctx.violation("crc-differs-from-m17-spec", "CRC16 result differs from the M17 CRC of the specification",
                                  {"input": c, "implementation": a[i], "specification": s[i]})
                    break
                if "res=0000" not in a[i]:
                    ctx.violation("crc-residue-nonzero", "message followed by its CRC bytes does not check to zero",
                                  {"input": c, "implementation": a[i]})
                    break
            elif c.startswith("seq"):
                # after reset() the engine must compute the CRC of exactly the bytes fed since that reset
                ops = c.split()[1:]
                outs = a[i].split()[1:]
                fed, seen_reset, k = bytearray(), False, 0
                for op in ops:
                    if op == "R":
                        fed, seen_reset = bytearray(), True
                    elif op in ("G", "B"):
                        got = outs[k] if k < len(outs) else "?"
                        k += 1
                        if seen_reset:
                            want = R_crc16(bytes(fed))
                            exp = ("g=%04x" % want) if op == "G" else ("b=%04x" % want)
                            if got != exp:
                                ctx.violation("crc-engine-reuse", "after reset() a reused engine does not return the CRC of the bytes fed since the reset",
                                              {"input": c, "implementation": a[i], "at_output": k - 1, "expected": exp, "bytes_since_reset": bytes(fed).hex()})
                                break
                    else:
                        fed.append(int(op, 16))
                if any(v[0] == "crc-engine-reuse" for v in ctx.violations):
                    break
            elif c.startswith("sweep"):
                pass   # correspondence only (every register value); a difference is searched below
            elif c.startswith("err"):
                e = c.split()[2]
                f = dict(x.split("=") for x in a[i].split())
                kind_nonzero = any(ch != "0" for ch in e.replace("-", ""))
                # only the classes the property names must be detected; random patterns are correspondence-only
                bits = bin(int(e, 16)).count("1") if e != "-" else 0
                span_ok = False
                if bits:
                    v = int(e, 16); hi = v.bit_length(); lo = (v & -v).bit_length()
                    span_ok = hi - lo + 1 <= 16
                if kind_nonzero and (bits <= 2 or span_ok) and f["a"] == f["b"]:
                    ctx.violation("crc-error-undetected", "a single/double/burst error leaves the CRC unchanged",
                                  {"input": c, "implementation": a[i]})
                    break
        # every register value at a byte boundary: all 65536 two-byte prefixes followed by one more byte, against the specification
        bytes3 = [0x00, r0.below(256)] if True else []
        diff_sweeps = [c.split()[1] for i, c in enumerate(cases) if c.startswith("sweep") and model_out and i < len(a)
                       and i < len(model_out.strip("\n").split("\n")) and a[i] != model_out.strip("\n").split("\n")[i]]
        bytes3 += [int(x, 16) for x in diff_sweeps]
        rc3, out3 = ctx.run_exe(exe, input_text="".join("all3 %02x\n" % b for b in bytes3), timeout=600)
        for b, l in zip(bytes3, out3.strip().split("\n")):
            if not l.startswith("ALL3 "):
                continue
            d = l[5:]
            ctx.evaluations += 65536
            for m in range(65536):
                msg = bytes([m >> 8, m & 255, b])
                if int(d[4 * m:4 * m + 4], 16) != R_crc16(msg):
                    ctx.violation("crc-differs-from-m17-spec", "CRC16 result differs from the M17 CRC of the specification",
                                  {"input": "crc " + msg.hex(), "implementation": d[4 * m:4 * m + 4], "specification": "%04x" % R_crc16(msg)})
                    break
        # the engine's use sites in the frame decoder: the CRC gates of decode_lsf and of the LICH reassembly
        dexe = ctx.build_cpp("decoder_harness", "decoder.cpp")
        if dexe:
            import fdcheck
            thorough = ctx.tier == "thorough"
            n = fdcheck.crc_gate_probe(ctx, dexe, ctx.rng.fork("c09-gate"), n_double=4000 if thorough else 600,
                                       n_burst=4000 if thorough else 600, n_lich=300 if thorough else 60)
            ctx.coverage["decoder_gate_frames"] = n
            ctx.evaluations += n
        # exhaustive classes on the C++ alone
        r = ctx.rng.fork("c09-classes")
        nframes = 8 if ctx.tier == "thorough" else 1
        frames = [r.bytes(30) for _ in range(nframes)]
        ctext = "".join(f"classes {hexs(m)}\n" for m in frames)
        rc, out = ctx.run_exe(exe, input_text=ctext, timeout=1800)
        lines = out.strip().split("\n")
        ctx.coverage["exhaustive_error_classes"] = lines
        for m, l in zip(frames, lines):
            ctx.evaluations += 240 + 28680
            if not l.startswith("single=0/240 double=0/28680 burst=0/"):
                ctx.violation("crc-error-undetected", "exhaustive class sweep found an undetected single/double/burst error",
                              {"frame": hexs(m), "result": l})
                break
        ctx.sample({"classes_frame": hexs(frames[0]), "result": lines[0] if lines else None})
