"""C20 - the documented pipeline  m17-mod | m17-demod -l  reports the link and decodes audio.

Proved (Properties_C20.v) for the application-level handlers; here:
 (1) handler level: the real dump_lsf / demodulate_audio (harness/c07_app.cpp, apps/m17-demod.cpp included) on the
     specification's LSF bytes for many (src, dst, CAN) - stderr must be exactly the extracted specification line,
     and equal to the extracted ImplApp model (correspondence); EOS / 640-byte accounting on stream callbacks.
 (2) process level: both applications are built from the repository on every run and run as a shell pipeline; exit
     statuses, stderr (LSF line, EOS, no packet diagnostics) and stdout length are checked."""
import concurrent.futures as cf
import os
import struct
import subprocess
import sys
import time
from pathlib import Path

from vlib import COQ, VERIF, sh

sys.path.insert(0, str(VERIF / "tools"))
import m17ref  # noqa: E402
from props import c07 as C07  # noqa: E402

PROPERTY = "C20"
CONSTS = ["app", "crc", "framedecoder", "viterbi", "golay", "puncture", "interleave", "randomizer", "mod"]  # the last eight: cone of the end-to-end composition (C13 + C01)
COQ_TARGETS = ["Properties_C20.vo", "Extract_C20.vo", "Extract_C07.vo"]
PROPERTIES_FILE = "Properties_C20.v"
LEVEL = "other"
RULE = ("handler level: specification LSFs for callsigns of every length 1..9 over the 39 non-space characters, broadcast and "
        "named destinations, every CAN 0..15, random META; stream callbacks around the EOS conditions. process level: "
        "m17-mod -S src [-D dst] -C can [-i] < audio (>= 20 s: tone, noise, silence) | m17-demod -l [-i], with and without 1 s of "
        "noise in front of the baseband; quick 12 runs, thorough 300. A run is non-trivial if audio came out; distinct by arguments.")
ASSUMPTIONS = ["theorems are about ImplApp.v (hand-written mirror of apps/m17-demod.cpp) tied by the handler-level differential of this run",
               "the analogue path (M17Demodulator acquisition and tracking), Boost.program_options, iostreams, process start-up and pipes are run, not proved",
               "callsigns with an embedded space are outside the property's alphabet and are not generated",
               "the expected CRC bytes in the report line come from the specification CRC (tools/m17ref.py; proved equal to the C++ CRC in C09)"]
TRUSTED = ["bash, pipes; libcodec2; Boost.program_options; the Blaze shim (harness/shim/blaze) standing in for Blaze in m17-demod"]

EXPLANATION = ("Partial by design (DESIGN.md C20): machine-checked Coq theorems (c20_lsf_report_matches, c20_audio_whole_frames, c20_eos_flagged) about the "
               "Gallina mirror of m17-demod's frame handlers, for all valid callsigns / CAN / META / CRC and all callback histories; the mirror is tied to "
               "apps/m17-demod.cpp on every run by regenerated constants and by running the real handlers (sanitizer build) and the extracted model on the "
               "same callbacks, and the real handlers' output is compared with the extracted *specification* line. The pipeline property itself (both "
               "processes, pipes, exit statuses, acquisition through the demodulator) is exercised by process-level runs of the two applications built "
               "from the repository in this run; that part is testing, not proof.")

PACKET_DIAGS = ["LSF for reserved packet type", "Packet checksum error", "Packet frame sequence error", "PKT:"]
CHARS = "ABCDEFGHIJKLMNOPQRSTUVWXYZ0123456789-/."
APP_FLAGS = ["-std=c++20", "-O2", "-DNDEBUG"]


def build_model(ctx):
    ctx.model = ctx.build_ocaml("c07_driver", [COQ / "c07_model.mli", COQ / "c07_model.ml", VERIF / "ocaml" / "c07_driver.ml"])
    ctx.spec = ctx.build_ocaml("c20_driver", [COQ / "c20_model.mli", COQ / "c20_model.ml", VERIF / "ocaml" / "c20_driver.ml"])


def build_app(ctx, name):
    exe = ctx.workdir / name
    cmd = ["g++", *APP_FLAGS, f"-I{ctx.repo}/include/m17cxx", f"-I{ctx.repo}/include", f"-I{VERIF}/harness/shim",
           str(ctx.repo / "apps" / (name + ".cpp")), "-o", str(exe), "-lcodec2", "-lboost_program_options", "-pthread"]
    rc, out = sh(cmd, timeout=900)
    (ctx.workdir / f"{name}.build.log").write_text(out)
    if rc != 0:
        ctx.broken.append(("correspondence", f"app-build:{name}", out[-1200:]))
        ctx.log(f"{name} failed to build:\n" + out[-1500:])
        return None
    return exe


def rand_call(r, n=None):
    n = n or r.range(1, 9)
    return "".join(r.choice(CHARS) for _ in range(n))


def spec_lines(ctx, configs):
    """configs: [(src, dst or None, can, meta bytes)] -> [(lsf bytes, expected line bytes, valid)] from the extracted specification"""
    lines = []
    for src, dst, can, meta in configs:
        body = m17ref.encode_callsign(dst) + m17ref.encode_callsign(src) + (5 | (can << 7)).to_bytes(2, "big") + meta
        crc = m17ref.crc16(body).to_bytes(2, "big")
        lines.append(f"line {src.encode().hex()} {dst.encode().hex() if dst else '-'} {can} {meta.hex()} {crc.hex()}")
    rc, out, err = C07.run_lines(ctx.spec, "\n".join(lines) + "\n")
    res = []
    for l in out.strip().split("\n"):
        f = dict(x.split("=") for x in l.split())
        res.append((bytes.fromhex(f["lsf"]), bytes.fromhex(f["line"]), f["valid"] == "1"))
    if len(res) != len(configs):
        ctx.tie_broken("c20-spec-driver", f"specification driver returned {len(res)} lines for {len(configs)} cases: {err[-200:]}")
    return res


# ------------------------------------------------------------------------------------------------ handler level
def handler_level(ctx, app):
    r = ctx.rng.fork("c20-handlers")
    thorough = ctx.tier == "thorough"
    configs = []
    for can in range(16):
        for n in range(1, 10):
            configs.append((rand_call(r, n), rand_call(r) if r.chance(2, 3) else None, can, bytes(14) if r.chance(1, 2) else r.bytes(14)))
    for ch in CHARS:                       # every character in first, middle and last position
        configs.append((ch, None, r.below(16), bytes(14)))
        configs.append(("A" + ch + "Z", ch * 9, r.below(16), bytes(14)))
    for _ in range(2000 if thorough else 200):
        configs.append((rand_call(r), rand_call(r) if r.chance(1, 2) else None, r.below(16), r.bytes(14)))
    spec = spec_lines(ctx, configs)
    cases = []
    for (src, dst, can, meta), (lsf, line, valid) in zip(configs, spec):
        cases.append(f"app 1{r.below(2)} L:{lsf.hex()}:{r.choice(C07.COSTS)}")
        ctx.count("handler:lsf")
    nlsf = len(cases)
    # stream callbacks: EOS conditions, both flags, costs around the limits; sequences for the byte accounting
    scases = []
    for cost in C07.COSTS:
        for b0 in (0x00, 0x7F, 0x80, 0xFF):
            for fl in ("00", "10", "01", "11"):
                scases.append((fl, [(bytes([b0]) + r.bytes(17), cost)]))
    for _ in range(60 if thorough else 20):
        n = r.range(1, 12)
        scases.append((r.choice(["10", "11"]), [(((i | (0x8000 if i == n - 1 else 0)).to_bytes(2, "big")) + r.bytes(16), r.choice([0, 10, 69, 70, 81, 200])) for i in range(n)]))
    for fl, frames in scases:
        cases.append(f"app {fl} " + ";".join(f"S:{p.hex()}:{c}" for p, c in frames))
        ctx.count("handler:stream")
    lines = C07.run_differential(ctx, app, "c20-handlers", cases, cases)
    # oracle 1: LSF report equals the specification's line
    for i in range(min(nlsf, len(lines))):
        src, dst, can, meta = configs[i]
        f = dict(x.split("=", 1) for x in lines[i].split() if "=" in x)
        got = bytes.fromhex(f.get("e", "")) if f.get("e", "-") != "-" else b""
        want = spec[i][1]
        if not spec[i][2]:
            ctx.tie_broken("c20-config", f"generated callsign not valid per the specification: {src!r} {dst!r}")
        if got != want or f.get("r") != "1" or not f.get("o", "").startswith("0"):
            diag = any(d.encode() in got for d in PACKET_DIAGS)
            key = "packet diagnostics for a voice stream" if diag else "lsf-report-differs"
            ctx.violation(key.replace(" ", "-"), "m17-demod's LSF handler does not print the link information of a voice-stream LSF" +
                          (" (prints packet-mode diagnostics)" if diag else ""),
                          {"src": src, "dst": dst, "can": can, "lsf": spec[i][0].hex(), "expected_stderr": want.decode(errors="replace"),
                           "actual_stderr": got.decode(errors="replace"), "case": cases[i]})
            break
    # oracle 2: EOS and byte accounting
    for j, (fl, frames) in enumerate(scases):
        i = nlsf + j
        if i >= len(lines):
            break
        parts = lines[i].split(" | ")
        if len(parts) != len(frames):
            continue            # a death: reported by run_differential
        for (p, c), part in zip(frames, parts):
            f = dict(x.split("=", 1) for x in part.split() if "=" in x)
            eos = c < 70 and (p[0] & 0x80) != 0
            if not f.get("o", "").startswith("640"):
                ctx.violation("audio-frame-not-640-bytes", "a STREAM callback did not write exactly 640 bytes to stdout",
                              {"case": cases[i], "actual": part}); break
            if (f.get("r") == "0") != eos:
                ctx.violation("eos-test", "the STREAM callback's return value does not flag end of stream (cost < 70 and FN bit 15)",
                              {"case": cases[i], "payload": p.hex(), "cost": c, "actual": part}); break
            want = b"\nEOS\n" if (eos and fl[0] == "1") else b""
            got = bytes.fromhex(f["e"]) if f.get("e", "-") != "-" else b""
            if got != want:
                ctx.violation("eos-report", "EOS is not reported exactly for the end-of-stream frame",
                              {"case": cases[i], "expected": want.decode(), "actual": got.decode(errors="replace")}); break
    ctx.sample({"handler_case": cases[0], "implementation": lines[0][:220] if lines else None})


# ------------------------------------------------------------------------------------------------ process level
def make_audio(path, kind, seconds, r):
    import math
    n = int(8000 * seconds)
    if kind == "tone":
        f = r.choice([300, 440, 1000, 2500])
        s = [int(8000 * math.sin(2 * math.pi * f * i / 8000)) for i in range(n)]
    elif kind == "noise":
        s = [r.range(-12000, 12000) for _ in range(n)]
    else:
        s = [0] * n
    Path(path).write_bytes(struct.pack("<%dh" % n, *s))
    return n


def run_pipeline(ctx, mod, demod, cfg, idx):
    src, dst, can, invert, lead, kind, seconds, seed = cfg
    import vlib
    r = vlib.SplitMix64(seed)
    d = ctx.workdir / f"run{idx}"
    d.mkdir(exist_ok=True)
    nsamples = make_audio(d / "audio.raw", kind, seconds, r)
    margs = ["-S", src, "-C", str(can)] + (["-D", dst] if dst else []) + (["-i"] if invert else [])
    dargs = ["-l"] + (["-i"] if invert else [])
    q = lambda a: " ".join("'" + x.replace("'", "'\\''") + "'" for x in a)
    if lead:
        # about one second of leading noise; the length is deliberately NOT a round number of blocks/frames (any residue
        # modulo 480 / 1920), so that the transmission ends at an arbitrary offset of the receiver's input stream
        nlead = 48000 + r.range(-4000, 4000) if r.chance(3, 4) else 48000
        nlead += r.choice([0, 1, 239, 431, 479, 481, 1919])
        (d / "lead.raw").write_bytes(struct.pack(f"<{nlead}h", *[r.range(-300, 300) for _ in range(nlead)]))
        producer = f"( cat lead.raw; {mod} {q(margs)} < audio.raw 2> mod.err; echo $? > mod.rc )"
    else:
        producer = f"( {mod} {q(margs)} < audio.raw 2> mod.err; echo $? > mod.rc )"
    script = f"{producer} | {demod} {q(dargs)} > out.raw 2> demod.err; echo $? > demod.rc"
    t0 = time.time()
    try:
        subprocess.run(["bash", "-c", script], cwd=d, timeout=600)
    except subprocess.TimeoutExpired:
        return cfg, {"timeout": True}
    def rd(n):
        try:
            return (d / n).read_text(errors="replace").strip()
        except OSError:
            return ""
    res = {"mod_rc": rd("mod.rc"), "demod_rc": rd("demod.rc"), "stderr": (d / "demod.err").read_bytes() if (d / "demod.err").exists() else b"",
           "out_len": (d / "out.raw").stat().st_size if (d / "out.raw").exists() else -1, "mod_err": rd("mod.err")[-300:],
           "nsamples": nsamples, "wall": time.time() - t0, "cmd": f"{Path(str(mod)).name} {q(margs)} < audio({kind},{seconds}s) | {'(about 1 s noise first) ' if lead else ''}{Path(str(demod)).name} {q(dargs)}",
           "dir": str(d)}
    for n in ("audio.raw", "lead.raw", "out.raw"):
        try:
            os.unlink(d / n)
        except OSError:
            pass
    return cfg, res


def process_level(ctx, mod, demod, only=None):
    r = ctx.rng.fork("c20-pipeline")
    thorough = ctx.tier == "thorough"
    nruns = 300 if thorough else 12
    cfgs = []
    kinds = ["tone", "noise", "silence"]
    for i in range(nruns if only is None else 0):
        src = rand_call(r, 1 + i % 9) if i % 4 else r.choice(["W1AW", "N0CALL-9", "AB1CDE/.Z", "9"])
        dst = None if i % 3 == 0 else rand_call(r)
        cfgs.append((src, dst, i % 16, (i // 2) % 2 == 1, i % 2 == 1, kinds[i % 3], 20 + (i % 5 if thorough else 0), r.next()))
    if only is not None:
        cfgs = [only]
    # (a probe with an embedded space was removed: the property's callsign alphabet is A-Z 0-9 - / . , so a report of
    #  'x' for base-40 digit 0 is outside what C20/C17 state - it had been a false alarm, see DESIGN.md 12.4)
    # fixed replay of the recorded finding no-acquisition-on-silent-audio (found by the thorough tier, seed 20260930)
    probe2 = ("9", "SEF0QWKB", 4, False, False, "silence", 20, 1)
    allcfgs = cfgs + ([probe2] if only is None else [])
    expected = spec_lines(ctx, [(c[0].replace(" ", "A"), c[1], c[2], bytes(14)) for c in cfgs])
    results = []
    with cf.ThreadPoolExecutor(max_workers=14) as ex:
        futs = [ex.submit(run_pipeline, ctx, mod, demod, c, i) for i, c in enumerate(allcfgs)]
        results = [f.result() for f in futs]
    ndecoded = 0
    for i, (cfg, res) in enumerate(results):
        src, dst, can, invert, lead, kind, seconds, seed = cfg
        is_probe = " " in src
        is_probe2 = only is None and i == len(cfgs)
        ctx.case(("pipeline", src, dst, can, invert, lead, kind), nontrivial=res.get("out_len", 0) > 0)
        ctx.count(f"pipeline:{kind}:{'inv' if invert else 'norm'}:{'lead' if lead else 'nolead'}")
        replay = {"command": res.get("cmd"), "src": src, "dst": dst, "can": can, "invert": invert, "leading_noise": lead, "audio": kind, "seconds": seconds,
                  "audio_seed": seed, "mod_exit": res.get("mod_rc"), "demod_exit": res.get("demod_rc"), "stdout_bytes": res.get("out_len"),
                  "demod_stderr": res.get("stderr", b"").decode(errors="replace").replace("\r", "\n")[-1200:], "mod_stderr": res.get("mod_err")}
        if res.get("timeout"):
            ctx.violation("pipeline-hangs", "the pipeline did not finish within 600 s", replay); continue
        err = res["stderr"].replace(b"\r", b"\n")
        if is_probe:
            want = b"SRC: AB CD,"
            if want not in err:
                ctx.violation("callsign-embedded-space", "a source callsign with an embedded space is not reported as given (decode_callsign maps value 0 to 'x')", replay)
            continue
        if res["mod_rc"] != "0" or res["demod_rc"] != "0":
            ctx.violation("pipeline-exit-status", "m17-mod / m17-demod did not both exit with status 0", replay); continue
        src_lines = [l for l in err.split(b"\n") if l.startswith(b"SRC: ")]
        if not src_lines and res["out_len"] == 0 and b"LICH" not in err:
            # the receiver never acquired the transmission at all (no LICH, no LSF, no audio)
            if kind == "silence":
                ctx.violation("no-acquisition-on-silent-audio", "m17-demod never acquires a transmission of silent audio for some link parameters "
                              "(nothing printed, nothing written; both exit 0)", replay)
            elif lead:
                # recorded finding (same defect as C06 deaf-coasting-on-garbage, seen through the applications): identified by the noise lead-in
                ctx.violation("no-acquisition-after-leading-noise", "m17-demod fed about 1 s of noise before the transmission never acquires it "
                              "(nothing printed, nothing written; both exit 0)", replay)
            else:
                ctx.violation("pipeline-no-acquisition", "m17-demod never acquires the transmission (nothing printed, nothing written)", replay)
            continue
        if is_probe2:
            continue
        want = expected[i][1].strip(b"\n")
        if any(d.encode() in err for d in PACKET_DIAGS):
            ctx.violation("packet-diagnostics-for-a-voice-stream", "m17-demod prints packet-mode diagnostics for a voice stream", replay); continue
        if lead and not src_lines and res["out_len"] == 0:
            # recorded finding: after the noise lead-in only a few LICH fragments are decoded, the link setup is never completed and no audio is written
            replay["expected_line"] = want.decode(errors="replace")
            ctx.violation("lsf-not-reported-after-leading-noise", "m17-demod fed about 1 s of noise before the transmission decodes a few LICH fragments "
                          "but never reports the link setup and writes no audio", replay); continue
        if not src_lines or any(l != want for l in src_lines):
            replay["expected_line"] = want.decode(errors="replace")
            ctx.violation("pipeline-lsf-report", "m17-demod -l does not report the link information given to m17-mod (or reports something else)", replay); continue
        if b"\nEOS\n" not in err:
            ctx.violation("pipeline-no-eos", "m17-demod -l does not flag the end of the stream", replay); continue
        frames = (res["nsamples"] + 319) // 320
        if res["out_len"] % 640 != 0 or res["out_len"] < 640 * (frames - 400) or res["out_len"] <= 0:
            replay["frames_sent"] = frames
            ctx.violation("pipeline-audio-length", "stdout is not a whole number of 640-byte frames covering all but at most the first 400 frames", replay); continue
        ndecoded += 1
        if i < 3:
            ctx.sample({"pipeline": res["cmd"], "lsf_line": want.decode(), "stdout_bytes": res["out_len"], "frames_sent": frames, "wall_s": round(res["wall"], 2)})
    ctx.coverage["pipeline_runs_ok"] = ndecoded
    ctx.coverage["pipeline_runs"] = len(cfgs)
    # one transmission longer than 2^15 frames (21 min 52 s of audio): the frame number wraps inside it.  Thorough tier, or when a
    # translator could not read the source / a proof broke (search harder).
    if only is None and (thorough or ctx.degraded or ctx.broken):
        cfg = ("AB1CD", None, 3, False, False, "tone", 1312, r.next())
        _, res = run_pipeline(ctx, mod, demod, cfg, len(allcfgs))
        ctx.case(("pipeline-long", cfg[0], cfg[2]), nontrivial=res.get("out_len", 0) > 0)
        ctx.count("pipeline:tone:frame-number-wrap")
        err = res.get("stderr", b"").replace(b"\r", b"\n")
        replay = {"command": res.get("cmd"), "src": cfg[0], "dst": None, "can": cfg[2], "invert": False, "leading_noise": False, "audio": "tone",
                  "seconds": 1312, "audio_seed": cfg[7], "mod_exit": res.get("mod_rc"), "demod_exit": res.get("demod_rc"),
                  "stdout_bytes": res.get("out_len"), "demod_stderr": err.decode(errors="replace")[-600:]}
        frames = (res.get("nsamples", 0) + 319) // 320
        want = spec_lines(ctx, [(cfg[0], None, cfg[2], bytes(14))])[0][1].strip(b"\n")
        src_lines = [l for l in err.split(b"\n") if l.startswith(b"SRC: ")]
        if res.get("timeout"):
            ctx.violation("pipeline-hangs", "the 32800-frame pipeline did not finish within 600 s", replay)
        elif res["mod_rc"] != "0" or res["demod_rc"] != "0":
            ctx.violation("pipeline-exit-status", "m17-mod / m17-demod did not both exit with status 0 (32800-frame transmission)", replay)
        elif not src_lines or any(l != want for l in src_lines):
            ctx.violation("pipeline-lsf-report", "32800-frame transmission: m17-demod -l does not report the link information given to m17-mod", replay)
        elif err.count(b"\nEOS\n") != 1:
            replay["eos_lines"] = err.count(b"\nEOS\n")
            ctx.violation("pipeline-eos-count", "32800-frame transmission (the frame number wraps at 0x8000): m17-demod -l does not flag the end of "
                          "the stream exactly once", replay)
        elif res["out_len"] % 640 != 0 or res["out_len"] < 640 * (frames - 400):
            replay["frames_sent"] = frames
            ctx.violation("pipeline-audio-length", "32800-frame transmission: stdout is not a whole number of 640-byte frames covering all but at "
                          "most the first 400 frames", replay)
        ctx.coverage["pipeline_long_run_frames"] = frames


def eof_probe(ctx):
    """F13: m17-demod's `while (std::cin)` loop runs once more after the failed read and hands the demodulator a sample that
    was not written in that iteration.  For non-empty input the stack slot still holds the previous sample (defined memory as
    far as any tool can tell); for EMPTY input it was never written, which valgrind's memcheck reports on an -O0 build."""
    import shutil
    if not shutil.which("valgrind"):
        ctx.notes.append("valgrind not available: the end-of-input probe (F13) was not run")
        return
    exe = ctx.workdir / "m17-demod-O0"
    cmd = ["g++", "-std=c++20", "-O0", "-g", "-DNDEBUG", f"-I{ctx.repo}/include/m17cxx", f"-I{ctx.repo}/include", f"-I{VERIF}/harness/shim",
           str(ctx.repo / "apps" / "m17-demod.cpp"), "-o", str(exe), "-lcodec2", "-lboost_program_options", "-pthread"]
    rc, out = sh(cmd, timeout=900)
    if rc != 0:
        ctx.broken.append(("correspondence", "app-build:m17-demod-O0", out[-800:]))
        return
    rc, out = sh(f"valgrind -q --track-origins=yes --error-exitcode=99 {exe} -l < /dev/null", timeout=600)
    ctx.case("eof-probe-empty-input")
    ctx.count("eof-probe")
    if "uninitialised" in out and "m17-demod.cpp" in out:
        ctx.violation("demod-eof-indeterminate-sample",
                      "m17-demod feeds the demodulator one more sample after the failed read at end of input; the int16_t was not written in that iteration "
                      "(empty input: never written at all - valgrind memcheck, -O0 build)",
                      {"command": "valgrind -q --track-origins=yes m17-demod(-O0 -g) -l < /dev/null", "exit": rc, "valgrind": out[:1500],
                       "note": "for non-empty input the slot holds the previous sample, which is then demodulated twice; candidate fix patches/fix-demod-eof-sample.diff"})


def run(ctx):
    t0 = time.time()
    with cf.ThreadPoolExecutor(max_workers=4) as ex:
        fa = ex.submit(C07.build_harnesses, ctx, ("c07_app",))
        fm = ex.submit(build_app, ctx, "m17-mod")
        fd = ex.submit(build_app, ctx, "m17-demod")
        fp = ex.submit(eof_probe, ctx)
        app, mod, demod = fa.result().get("c07_app"), fm.result(), fd.result()
        fp.result()
    ctx.log(f"builds {time.time() - t0:.1f}s")
    if ctx.replay_in:
        import json
        rp = json.load(open(ctx.replay_in)).get("replay", {})
        if "case" in rp and app:
            lines = C07.run_differential(ctx, app, "replay", [rp["case"]], [rp.get("model_case", rp["case"])])
            ctx.sample({"replayed_case": rp["case"][:300], "implementation": lines[0][-300:] if lines else None})
        elif "audio_seed" in rp and mod and demod:
            process_level(ctx, mod, demod, only=(rp["src"], rp["dst"], rp["can"], rp["invert"], rp["leading_noise"], rp["audio"], rp["seconds"], rp["audio_seed"]))
        elif "valgrind" in rp:
            pass        # the end-of-input probe has just been re-run above
        else:
            ctx.tie_broken("replay", "the replay file holds no concrete input")
        return
    if app and getattr(ctx, "spec", None):
        handler_level(ctx, app)
        ctx.log(f"handler level done {time.time() - t0:.1f}s")
    if mod and demod and getattr(ctx, "spec", None):
        process_level(ctx, mod, demod)
        ctx.log(f"process level done {time.time() - t0:.1f}s")
