"""C18 — PRBS9/BERT: correspondence (C++ PRBS9 vs extracted ImplPRBS, full observable state after every bit) and the property
oracle on the real code (generator = specification sequence, period, balance; lock within 27 clean bits; exact error/bit
counts after a true lock while the window holds < 25 errors; unlock exactly at 25)."""
import json
from collections import deque
from vlib import COQ, VERIF

PROPERTY = "C18"
CONSTS = ["prbs", "crc", "framedecoder", "viterbi", "golay", "puncture", "interleave", "randomizer", "mod"]
COQ_TARGETS = ["Properties_C18.vo", "Extract_C18.vo"]
PROPERTIES_FILE = "Properties_C18.v"
LEVEL = "proof"
RULE = ("generator: 3 periods from construction and after reset(); validator: all 511 phases x {new, reset, garbage prefix, "
        "previously locked on another phase and unlocked by an error burst}; one inverted bit at every position of two periods "
        "(1022 cases; quick: every position, thorough: three random phases each); random error patterns at densities 0..30 per 128 bits "
        "(both sides of the unlock threshold of 25) incl. bursts; consecutive 197-bit BERT slices; all-zero input; reset in mid-stream. "
        "Every validate() is observed (return value, sync(), errors(), bits()).  A case is non-trivial if it feeds at least 28 bits; "
        "distinct by content.")
ASSUMPTIONS = ["model = hand-written ImplPRBS.v; tie = differential run on the cases of this run + regenerated constants "
               "(mask, taps, thresholds, member widths and initial values, window arithmetic, BERT frame size)",
               "harness built with -DNDEBUG (as the project's default Release build): errors()/bits() are read in every state",
               "PRBS9 observed through generate()/validate()/reset()/sync()/errors()/bits() only; std::array history uninitialised "
               "at construction is never read before synchronize() zeroes it (shown by the model: history is a parameter of prbs_new)"]

LOCK_BOUND = 27
TRUE_LOCK_BOUND = 124      # c18_true_lock_from_any_state: 27 (flag) + 70 (a false lock unlocks) + 27
LOCK_RUN = 18
WINDOW = 128
UNLOCK = 25


def build_model(ctx):
    ctx.model = ctx.build_ocaml("c18_driver", [COQ / "c18_model.mli", COQ / "c18_model.ml", VERIF / "ocaml" / "c18_driver.ml"])


def flips_str(n, flips):
    fl = sorted(set(i for i in flips if 0 <= i < n))
    return f"T{n}" + (":" + ",".join(map(str, fl)) if fl else "")


def gen_cases(ctx):
    r = ctx.rng.fork("c18")
    thorough = ctx.tier == "thorough"
    cases = []
    cases.append("G1533")
    cases.append("S100 Q G1533")
    cases.append("G5 Q G5 S506 G520")
    ctx.count("generator", 3)
    # ---- every phase, four kinds of validator history
    for p in list(range(511)) * (3 if thorough else 1):
        cases.append(f"S{p} T60")
        ctx.count("phase-new")
        cases.append(f"V{''.join(str(r.below(2)) for _ in range(r.range(1, 40)))} R S{p} T60")
        ctx.count("phase-after-reset")
        cases.append(f"V{''.join(str(r.below(2)) for _ in range(r.range(1, 60)))} S{p} T150")
        ctx.count("phase-garbage-prefix")
        # locked on another phase, unlocked by a burst of inverted bits, phase jump, clean
        q = r.below(511)
        burst = r.range(25, 40)
        start = r.range(0, 30)
        cases.append(f"S{q} T{40 + start + burst}:{','.join(str(40 + start + i) for i in range(burst))} S{p} T150")
        ctx.count("phase-after-unlock")
    # ---- one inverted bit at every position of two periods
    reps = 3 if thorough else 1
    for i in range(1022):
        for _ in range(reps):
            cases.append(f"S{r.below(511)} T27 {flips_str(i + 12, [i])}")
            ctx.count("single-error")
    # ---- random error patterns by density (errors per 128 bits), after a clean lock
    for d in range(0, 31):
        for _ in range(80 if thorough else 6):
            n = r.range(300, 900)
            fl = [i for i in range(n) if r.below(128) < d]
            cases.append(f"S{r.below(511)} T30 {flips_str(n, fl)} T60")
            ctx.count(f"density-{d:02d}")
    for _ in range(200 if thorough else 40):                 # bursts around the threshold, then clean
        n = 400
        fl = []
        for _b in range(r.range(1, 4)):
            s0 = r.below(300)
            fl += [s0 + k for k in range(r.range(20, 30)) if not r.chance(1, 8)]
        cases.append(f"S{r.below(511)} T30 {flips_str(n, fl)} T80")
        ctx.count("bursts")
    for w in (23, 24, 25, 26):                                # exactly w errors spread over one window
        for _ in range(20 if thorough else 4):
            pos = r.shuffle(list(range(128)))[:w]
            cases.append(f"S{r.below(511)} T27 {flips_str(160, pos)} T60")
            ctx.count(f"window-exactly-{w}")
    # errors during acquisition
    for _ in range(300 if thorough else 60):
        fl = [r.below(40) for _ in range(r.range(1, 3))]
        cases.append(f"S{r.below(511)} {flips_str(120, fl)}")
        ctx.count("errors-during-acquisition")
    # ---- BERT slices, zeros, reset in mid-stream, false-lock history
    for _ in range(20 if thorough else 5):
        cases.append(f"S{197 * r.below(60)} " + " ".join(["T197"] * r.range(2, 12)))
        ctx.count("bert-slices")
    cases.append("V" + "0" * 80)
    cases.append("V" + "1" * 80)
    cases.append("V" + "0" * 26 + " T150")
    cases.append("R V" + "0" * 26 + " S1 T150")
    for _ in range(10):
        cases.append(f"S{r.below(511)} T{r.range(1, 60)} R T60 R R T30")
    ctx.count("special", 14)
    # a reset while part-way to lock (sync_count = k - 9 in 1..17), then a new sequence: nothing of the partial run may survive
    for _ in range(1500 if thorough else 120):
        k = r.range(10, 26)
        cases.append(f"S{r.below(511)} T{k} R S{r.below(511)} T150")
        ctx.count("reset-during-acquisition")
    for _ in range(300 if thorough else 40):                 # ... and a reset during the re-acquisition after an unlock
        burst = r.range(25, 40)
        cases.append(f"S{r.below(511)} T{40 + burst}:{','.join(str(40 + i) for i in range(burst))} T{r.range(10, 26)} R S{r.below(511)} T150")
        ctx.count("reset-during-reacquisition")
    # sync_count >= 10 on another phase, then a phase jump (the history for which c18_lock_within_27 does not hold)
    for _ in range(1500 if thorough else 40):
        k = r.range(19, 26)            # 9 bits fill the register, k - 9 >= 10 matches
        cases.append(f"S{r.below(511)} T{k} S{r.range(1, 510)} T150")
        ctx.count("phase-jump-during-acquisition")
    return cases


class Oracle:
    """The property itself, evaluated on the observations of the real code for one case."""

    def __init__(self, ctx, case):
        self.ctx, self.case = ctx, case
        self.synced = False
        self.prev_e = self.prev_b = 0
        self.clean = 0            # most recent inputs that were uninverted, phase-continuous generator bits
        self.deadline = None      # (bits left) by which sync must be raised
        self.deadline2 = None     # (bits left) by which a true lock must have happened, from any unsynced state
        self.d2_e0 = 0
        self.engaged = False      # locked with the generator's register: the counting half applies
        self.win = deque(maxlen=WINDOW)
        self.exp_e = self.exp_b = 0
        self.failed = False
        self.fed = 0
        self.fresh = True         # constructed or reset(), and fed nothing but uninverted, phase-continuous generator bits since
        self.fresh_clean = 0

    def fail(self, key, text, **kw):
        if not self.failed:
            self.failed = True
            self.ctx.violation(key, text, dict(case=self.case, bit_index_in_case=self.fed, **kw))

    def jump(self):               # generator phase changes / reset: the input is no longer the continuation
        self.clean = 0
        self.deadline = None
        self.deadline2 = None
        self.engaged = False

    def reset(self):
        self.synced = False
        self.fresh = True
        self.fresh_clean = 0
        self.clean = 0
        self.prev_e = self.prev_b = 0
        self.deadline = None
        self.deadline2 = None
        self.engaged = False

    def feed(self, from_gen, flipped, remaining_clean, o):
        """o = (result, sync, errors, bits) observed after this validate()."""
        res, syn, e, b = o
        self.fed += 1
        was_synced = self.synced
        if from_gen and not flipped:
            self.clean += 1
            self.fresh_clean += 1
        else:
            self.clean = 0
            self.fresh = False
        if self.fresh and self.fresh_clean != self.clean:      # a phase jump since construction / reset()
            self.fresh = False
        if self.fresh and not was_synced and syn and self.clean < LOCK_RUN:
            self.fail("prbs-lock-before-18-bits", "a new or reset validator fed only error-free bits of one phase raised sync after fewer "
                      "than 18 bits: the lock run must consist of bits received since construction / reset()",
                      bits_since_reset=self.clean, observed=dict(sync=syn, errors=e, bits=b))
        if self.fresh and e != 0:
            self.fail("prbs-errors-on-clean-stream", "a new or reset validator fed only error-free bits of one phase reports errors",
                      bits_since_reset=self.clean, observed=dict(sync=syn, errors=e, bits=b))
        if not (from_gen and not flipped):
            self.deadline2 = None
        elif self.deadline2 is None and not was_synced and remaining_clean >= TRUE_LOCK_BOUND:
            self.deadline2 = TRUE_LOCK_BOUND
            self.d2_e0 = self.prev_e
        if not was_synced:
            if self.deadline is None and from_gen and not flipped and remaining_clean >= LOCK_BOUND:
                self.deadline = LOCK_BOUND
            if self.deadline is not None:
                if not (from_gen and not flipped):
                    self.deadline = None
                else:
                    self.deadline -= 1
                    if syn:
                        self.deadline = None
                    elif self.deadline == 0:
                        self.fail("prbs-no-lock-within-27", "validator fed 27 error-free bits of the sequence is still not synced",
                                  observed=dict(sync=syn, errors=e, bits=b))
            if syn:
                if self.clean >= 9:           # register = last nine received bits = the generator's: a true lock
                    self.engaged = True
                    self.win.clear()
                    self.exp_e = self.prev_e
                    self.exp_b = (self.prev_b + LOCK_RUN) % 2 ** 32
                    if b != self.exp_b:
                        self.fail("prbs-bit-count", "bits() after lock is not the previous count + 18", expected=self.exp_b, observed=b)
                    if e != self.exp_e:
                        self.fail("prbs-error-count", "errors() changed by locking", expected=self.exp_e, observed=e)
        else:
            if self.engaged and from_gen:
                before = sum(self.win)
                self.win.append(1 if flipped else 0)
                cnt = sum(self.win)
                self.exp_e = (self.exp_e + (1 if flipped else 0)) % 2 ** 32
                self.exp_b = (self.exp_b + 1) % 2 ** 32
                if res != (1 if flipped else 0):
                    self.fail("prbs-result-bit", "validate() of a locked validator does not return the error flag of the bit",
                              expected=int(flipped), observed=res)
                if e != self.exp_e:
                    self.fail("prbs-error-count", "errors() differs from err0 + number of received bits that differ from the sequence",
                              expected=self.exp_e, observed=e, window_errors=cnt)
                if b != self.exp_b:
                    self.fail("prbs-bit-count", "bits() differs from bits0 + 18 + number of bits checked", expected=self.exp_b, observed=b)
                if before < UNLOCK and cnt < UNLOCK and not syn:
                    self.fail("prbs-spurious-unlock", "synced dropped although fewer than 25 of the last 128 bits were in error",
                              window_errors=cnt)
                if flipped and cnt >= UNLOCK and syn:
                    self.fail("prbs-no-unlock-at-25", "still synced although 25 of the last 128 bits were in error", window_errors=cnt)
                if cnt >= UNLOCK:
                    self.engaged = False
            else:
                self.engaged = False
        if was_synced and not syn:
            self.engaged = False
            self.deadline = None
        if self.deadline2 is not None:
            self.deadline2 -= 1
            if self.engaged:
                if e not in (self.d2_e0, (self.d2_e0 + UNLOCK) % 2 ** 32):
                    self.fail("prbs-spurious-errors-before-lock", "errors() grew by something other than 0 or 25 while acquiring on an "
                              "error-free sequence", before=self.d2_e0, observed=e)
                self.deadline2 = None
            elif self.deadline2 == 0:
                self.fail("prbs-no-true-lock-within-124", "validator fed 124 error-free bits of the sequence is not locked on the "
                          "generator's register", observed=dict(sync=syn, errors=e, bits=b))
        self.synced = bool(syn)
        self.prev_e, self.prev_b = e, b


def parse_obs(tok):
    out = []
    for x in tok.split(","):
        if x:
            a, e, b = x.split(":")
            out.append((int(a[0]), int(a[1]), int(e), int(b)))
    return out


def oracle_case(ctx, case, line, spec_line):
    ops = case.split()
    toks = line.split(" ")
    toks = [t for t in toks if t != ""]
    stoks = [t for t in spec_line.split(" ") if t != ""] if spec_line is not None else None
    o = Oracle(ctx, case)
    ti = si = 0
    for op in ops:
        c, arg = op[0], op[1:]
        if c == "G":
            if ti >= len(toks):
                return
            bits = toks[ti][1:]
            ti += 1
            if stoks is not None and si < len(stoks):
                want = stoks[si][1:]
                si += 1
                if bits != want:
                    k = next((i for i in range(min(len(bits), len(want))) if bits[i] != want[i]), min(len(bits), len(want)))
                    ctx.violation("prbs-generator-not-m-sequence", "generate() differs from the sequence of x^9+x^5+1 started at register 1",
                                  {"case": case, "first_differing_output": k, "implementation": bits[max(0, k - 8):k + 9],
                                   "specification": want[max(0, k - 8):k + 9]})
                    return
            if len(bits) >= 1022:
                per = bits[:511]
                if bits[511:1022] != per:
                    ctx.violation("prbs-period", "generator output does not repeat after 511 bits", {"case": case})
                    return
                if any(per == per[k:] + per[:k] for k in range(1, 511)):
                    ctx.violation("prbs-period", "generator output has a period shorter than 511", {"case": case})
                    return
                if per.count("1") != 256:
                    ctx.violation("prbs-ones", "one period does not hold 256 ones", {"case": case, "ones": per.count("1")})
                    return
            o.jump()
        elif c in ("S", "Q"):
            o.jump()
        elif c == "R":
            o.reset()
        elif c == "V":
            if ti >= len(toks):
                return
            obs = parse_obs(toks[ti])
            ti += 1
            for x in obs:
                o.feed(False, False, 0, x)
        elif c == "T":
            if ti >= len(toks):
                return
            obs = parse_obs(toks[ti])
            ti += 1
            n = int(arg.split(":")[0])
            fl = set(int(x) for x in arg.split(":")[1].split(",")) if ":" in arg else set()
            # remaining clean run length from each index
            rem = [0] * (n + 1)
            for i in range(n - 1, -1, -1):
                rem[i] = 0 if i in fl else rem[i + 1] + 1
            for i, x in enumerate(obs[:n]):
                o.feed(True, i in fl, rem[i], x)
        if o.failed:
            return


def run(ctx):
    exe = ctx.build_cpp("c18_harness", "c18.cpp")
    if ctx.replay_in:
        rp = json.load(open(ctx.replay_in))
        cases = [rp["replay"]["case"]]
    else:
        cases = gen_cases(ctx)
    text = "\n".join(cases) + "\n"
    (ctx.workdir / "cases.txt").write_text(text)
    impl_out = model_out = spec_out = ""
    if exe:
        rc, impl_out = ctx.run_exe(exe, input_text=text, timeout=1800)
        if rc != 0:
            ctx.tie_broken("c18-harness-run", f"harness exited {rc}: {impl_out[-300:]}")
    if getattr(ctx, "model", None):
        rc, model_out = ctx.run_exe(ctx.model, ["impl"], input_text=text, timeout=3000)
        if rc != 0:
            ctx.tie_broken("c18-model-run", f"model driver exited {rc}: {model_out[-300:]}")
        gen_only = "\n".join(c if "G" in c else "" for c in cases) + "\n"
        rc2, spec_out = ctx.run_exe(ctx.model, ["spec"], input_text=gen_only, timeout=3000)
    a = impl_out.split("\n")
    s = spec_out.split("\n") if spec_out else []
    if exe and getattr(ctx, "model", None):
        ctx.diff_lines("prbs-impl-vs-model", cases, impl_out, model_out)
    nbits = 0
    for i, c in enumerate(cases):
        fed = sum(int(op[1:].split(":")[0]) for op in c.split() if op[0] == "T") + sum(len(op) - 1 for op in c.split() if op[0] == "V")
        nbits += fed
        ctx.case(c, nontrivial=fed >= 28 or "G" in c)
        if exe and i < len(a) and len(ctx.violations) < 8:
            oracle_case(ctx, c, a[i], s[i] if i < len(s) and "G" in c else None)
    ctx.coverage["validate_calls_compared"] = nbits
    if exe and a:
        ctx.sample({"case": cases[0], "impl": a[0][:80] + "..."})
        for i in (3, 5, 6, len(cases) - 1):
            if i < len(a):
                ctx.sample({"case": cases[i][:100], "impl_tail": a[i][-70:]})
