"""C16 — queue blocking and shutdown: forever means forever, close ends waits promptly.
Tie: real-time probes of the C++ queue with generous margins (harness/c16.cpp), the stress runs with a closer thread
of C15 (response oracle + trace inclusion when the hook is present) and a shutdown oracle on those runs."""
import re
from vlib import COQ, VERIF
from props import c15 as q15

PROPERTY = "C16"
CONSTS = ["queue"]
COQ_TARGETS = ["Properties_C16.vo", "Extract_C15.vo"]
PROPERTIES_FILE = "Properties_C16.v"
LEVEL = "proof"
RULE = ("real-time probes, all run concurrently on their own queues: put-on-full / get-on-empty x timeout {default, 200 ms, 0} x "
        "releasing action {counterpart, close, none=timeout}; close waking 3 blocked consumers and 3 blocked producers; close at fill "
        "level {0,1,3} of a capacity-3 queue followed by puts, drain, is_open/is_closed, get(300 ms), default get.  Margins: "
        "'at once' < 50 ms, 'still blocked' sampled at 300 ms, 'released' within 100 ms of the releasing action, a 200 ms timeout "
        "takes 195..330 ms; a probe that misses a margin is repeated (3 rounds) and counts only if it misses in every round.  "
        "Plus the C15 stress runs that have a closer thread.  Every probe is non-trivial; distinct by probe name / (configuration, seed).")
ASSUMPTIONS = ["model = ImplQueue.v; int64 wrap-around of the deadline is modelled as the observed behaviour of a signed overflow that is formally UB",
               "timing margins: a scheduling delay above 50 ms (resp. 100 ms after a release) in all three rounds would be reported as a failure",
               "fairness / eventual wake-up is tested (probes), not proved: the theorems are safety statements"]
EXPLANATION = "proof over the interleaving model ImplQueue.v; correspondence by real-time probes and stress runs with close"

FAST = 50.0
REL = 100.0


def build_model(ctx):
    q15.build_model(ctx)


def parse_probes(out):
    res = {}
    for line in out.strip().split("\n"):
        t = line.split()
        if len(t) < 5 or "=" not in t[1]:
            continue
        d = dict(x.split("=", 1) for x in t[1:])
        res[t[0]] = d
    return res


def judge(name, d):
    """-> None if the probe meets its expectation, else (key, text)."""
    ret = d["ret"]
    t = float(d["t"])
    rel = float(d["rel"])
    blocked = int(d["blocked"])
    parts = name.split("/")
    if parts[0] in ("put_full", "get_empty"):
        what = "put on a full queue" if parts[0] == "put_full" else "get on an empty queue"
        tmo, how = parts[1], parts[2]
        if tmo == "zero":
            if ret != "0" or t >= FAST:
                return ("queue-zero-timeout-blocks", f"{what} with a zero timeout did not return false at once")
            return None
        if tmo == "default":
            if blocked != 1:
                if ret == "0" and t < FAST:
                    return ("queue-forever-timeout-returns-early", f"a default-timeout {what} returned false within {t:.1f} ms instead of blocking")
                return ("queue-forever-timeout-returns-early", f"a default-timeout {what} was no longer blocked after 300 ms (returned {ret} after {t:.1f} ms)")
            if how == "none":
                return None
            want = "1" if how == "peer" else "0"
            if ret == "none" or t - rel > REL:
                return (("queue-peer-release-late", f"a default-timeout {what} was not released within 100 ms of the counterpart operation")
                        if how == "peer" else
                        ("queue-close-does-not-end-wait", f"a default-timeout {what} was still blocked 100 ms after close()"))
            if ret != want:
                return ("queue-wrong-result-after-release", f"a default-timeout {what} released by {how} returned {ret}")
            return None
        # 200 ms
        if how == "none":
            if ret != "0" or not (195.0 <= t <= 330.0):
                if ret == "0" and t < FAST:
                    return ("queue-timed-wait-returns-early", f"a 200 ms {what} returned false after {t:.1f} ms")
                return ("queue-timed-wait-wrong-duration", f"a 200 ms {what} returned {ret} after {t:.1f} ms (expected false after 195..330 ms)")
            return None
        want = "1" if how == "peer" else "0"
        if blocked != 1:
            return ("queue-timed-wait-returns-early", f"a 200 ms {what} had already returned {ret} after {t:.1f} ms, before it was released at 80 ms")
        if ret == "none" or t - rel > REL:
            return (("queue-peer-release-late", f"a 200 ms {what} was not released within 100 ms of the counterpart operation")
                    if how == "peer" else ("queue-close-does-not-end-wait", f"a 200 ms {what} was still blocked 100 ms after close()"))
        if ret != want:
            return ("queue-wrong-result-after-release", f"a 200 ms {what} released by {how} returned {ret}")
        return None
    if parts[0] == "wake_all":
        if blocked != 1:
            return ("queue-forever-timeout-returns-early", f"a default-timeout {parts[1]} was not blocked when close() was called (returned {ret} after {t:.1f} ms)")
        if ret == "none" or t - rel > REL:
            return ("queue-close-does-not-wake-all", f"one of three blocked {parts[1]} callers was still blocked 100 ms after close()")
        if ret != "0":
            return ("queue-wrong-result-after-release", f"a {parts[1]} woken by close() returned true")
        return None
    if parts[0] == "drain":
        k = int(parts[1][4:])
        exp_vals = ",".join(str(100 + i) for i in range(k)) or "-"
        if d.get("open_after_close") != "0":
            return ("queue-open-after-close", "is_open() is true after close()")
        if d.get("closed_after_close") != ("1" if k == 0 else "0"):
            return ("queue-closed-state-wrong", f"is_closed() right after close() at fill level {k} is {d.get('closed_after_close')}")
        if d.get("put_after_close") != "0" or float(d.get("put_ms", "0")) >= FAST:
            return ("queue-put-after-close", f"put after close() returned {d.get('put_after_close')} after {d.get('put_ms')} ms")
        if d.get("drained") != exp_vals or d.get("size_after") != "0":
            return ("queue-drain-lost-items", f"items accepted before close() were not handed out in order: got {d.get('drained')}, expected {exp_vals}")
        if d.get("closed_after_drain") != "1" or d.get("open_after_drain") != "0":
            return ("queue-drained-not-closed", f"after close() at fill level {k} and draining, is_closed()={d.get('closed_after_drain')} is_open()={d.get('open_after_drain')}")
        if d.get("get300_after_drain") != "0" or float(d.get("get300_ms", "1e9")) >= FAST:
            return ("queue-drained-not-closed", f"get(300 ms) on the drained closed queue returned {d.get('get300_after_drain')} after {d.get('get300_ms')} ms instead of failing at once")
        if "getdefault_after_drain" not in d:
            return ("queue-drained-not-closed", "a default-timeout get on the drained closed queue blocked instead of failing at once")
        if d.get("getdefault_after_drain") != "0" or float(d.get("getdefault_ms", "1e9")) >= FAST:
            return ("queue-drained-not-closed", f"a default get on the drained closed queue returned {d.get('getdefault_after_drain')} after {d.get('getdefault_ms')} ms")
        return None
    return None


def run_probes(ctx):
    exe = ctx.build_cpp("c16_harness", "c16.cpp")
    if not exe:
        return
    rounds = []

    def one_round():
        rc, out = ctx.run_exe(exe, timeout=60)
        probes = parse_probes(out)
        if rc != 0 or len(probes) < 20:
            ctx.tie_broken("c16-probe-harness", f"probe harness exited {rc} with {len(probes)} probes: {out[-300:]}")
            return None
        rnd = len(rounds)
        rounds.append(probes)
        for n in probes:
            ctx.case(f"probe:{n}:round{rnd}", True)
            ctx.count("probe-" + n.split("/")[0])
        bad = {n: judge(n, d) for n, d in probes.items()}
        return {n: b for n, b in bad.items() if b}

    failing = {}
    for base in range(5 if ctx.tier == "thorough" else 1):
        bad = one_round()
        if bad is None:
            return
        # a missed margin counts only if the same probe misses it again in two further rounds (rules out scheduling noise)
        for _ in range(2):
            if not bad:
                break
            again = one_round()
            if again is None:
                return
            bad = {n: b for n, b in bad.items() if n in again}
        if bad:
            failing = bad
            break
    ctx.coverage["probe_rounds"] = len(rounds)
    ctx.sample({"probe": "put_full/default/close", "result": rounds[0].get("put_full/default/close")})
    ctx.sample({"probe": "drain/fill1", "result": rounds[0].get("drain/fill1")})
    seen = set()
    for n, (key, text) in sorted((failing or {}).items()):
        if key in seen:
            continue
        seen.add(key)
        ctx.violation(key, text, {"probe": n, "observed_in_each_round": [r.get(n) for r in rounds],
                                  "how_to_replay": f"{exe}   (prints one line per probe; see harness/c16.cpp for the time line)",
                                  "margins_ms": {"at_once": FAST, "after_release": REL}})


def shutdown_oracle(ctx, runs):
    """On stress runs with close: no put that was invoked after a close() had returned may succeed."""
    for cfg, evs in runs:
        close_resp = None
        for i, (tid, kind, a, b, c, d) in enumerate(evs):
            if kind == "RESP" and a == 5 and close_resp is None:
                close_resp = i
        if close_resp is None:
            continue
        inv = {}
        for i, (tid, kind, a, b, c, d) in enumerate(evs):
            if kind == "INV":
                inv[tid] = i
            elif kind == "RESP" and a == 1 and b == 1 and inv.get(tid, -1) > close_resp:
                ctx.violation("queue-put-after-close", "a put invoked after close() had returned was accepted",
                              {"configuration": cfg, "value": c})
                return
            elif kind == "RESP" and a == 4 and c == 0 and b == 1 and inv.get(tid, -1) > close_resp:
                ctx.violation("queue-open-after-close", "is_open() invoked after close() had returned was true", {"configuration": cfg})
                return


def run(ctx):
    run_probes(ctx)
    runs = q15.run_stress(ctx, prefix="c16", per_config=(4 if ctx.tier == "thorough" else 1), closer_only=True)
    shutdown_oracle(ctx, runs)
    gen = (COQ / "gen" / "ConstsQueue.v").read_text()
    for name in re.findall(r"Definition (\w+) : bool := false", gen):
        ctx.notes.append(f"source audit: {name} = false (the corresponding proof obligation of Properties_C16/C15 no longer holds)")
