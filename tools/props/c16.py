"""C16 — queue blocking and shutdown: forever means forever, close ends waits promptly.
Tie: real-time probes of the C++ queue with generous margins (harness/c16.cpp), the stress runs with a closer thread
of C15 (response oracle + trace inclusion when the hook is present) and a shutdown oracle on those runs."""
import re
from vlib import COQ, VERIF
from props import c15 as q15

PROPERTY = "C16"
CONSTS = ["queue"]
COQ_TARGETS = ["Properties_C16.vo", "Extract_C15.vo"]
PROPERTIES_FILE = "Properties_C16.v"
LEVEL = "proof"
RULE = ("real-time probes, all run concurrently on their own queues: put-on-full / get-on-empty x timeout {default, 200 ms, 0} x "
        "releasing action {counterpart, close, none=timeout}; close waking 3 blocked consumers and 3 blocked producers; close at fill "
        "level {0,1,3} of a capacity-3 queue followed by puts, drain, is_open/is_closed, get(300 ms), default get.  Margins: "
        "'at once' < 50 ms, 'still blocked' sampled at 300 ms, 'released' within 100 ms of the releasing action, a 200 ms timeout "
        "takes 195..330 ms; a probe that misses a margin is repeated (3 rounds) and counts only if it misses in every round.  "
        "Plus the C15 stress runs that have a closer thread.  Every probe is non-trivial; distinct by probe name / (configuration, seed).")
ASSUMPTIONS = ["model = ImplQueue.v; int64 wrap-around of the deadline is modelled as the observed behaviour of a signed overflow that is formally UB",
               "timing margins: a scheduling delay above 50 ms (resp. 100 ms after a release) in all three rounds would be reported as a failure",
               "fairness / eventual wake-up is tested (probes), not proved: the theorems are safety statements"]
EXPLANATION = "proof over the interleaving model ImplQueue.v; correspondence by real-time probes and stress runs with close"

FAST = 50.0
REL = 100.0


def build_model(ctx):
    q15.build_model(ctx)


def parse_probes(out):
    res = {}
    for line in out.strip().split("\n"):
        t = line.split()
        if len(t) < 5 or "=" not in t[1]:
            continue
        d = dict(x.split("=", 1) for x in t[1:])
        res[t[0]] = d
    return res


def judge(name, d):
    """-> None if the probe meets its expectation, else (key, text, hard).  hard = a logical failure that no scheduling
    delay can produce on a correct queue (returned false before anything released it, never returned, wrong state);
    soft = a missed timing margin (judged only in rounds in which the heartbeat saw no stall)."""
    ret = d["ret"]
    t = float(d["t"])
    rel = float(d["rel"])
    blocked = int(d["blocked"])
    parts = name.split("/")
    if parts[0] in ("put_full", "get_empty"):
        what = "put on a full queue" if parts[0] == "put_full" else "get on an empty queue"
        tmo, how = parts[1], parts[2]
        if tmo == "zero":
            if ret != "0":
                return ("queue-zero-timeout-blocks", f"{what} with a zero timeout returned {ret}", True)
            if t >= FAST:
                return ("queue-zero-timeout-blocks", f"{what} with a zero timeout took {t:.1f} ms", False)
            return None
        if tmo == "default":
            if blocked != 1:
                return ("queue-forever-timeout-returns-early",
                        f"a default-timeout {what} returned {'false' if ret == '0' else ret} after {t:.1f} ms although nothing had released it "
                        f"(the queue was open and still {'full' if parts[0] == 'put_full' else 'empty'})", True)
            if how == "none":
                return None
            want = "1" if how == "peer" else "0"
            if ret == "none":
                return (("queue-peer-release-late", f"a default-timeout {what} was never released by the counterpart operation", True)
                        if how == "peer" else
                        ("queue-close-does-not-end-wait", f"a default-timeout {what} stayed blocked after close()", True))
            if ret != want:
                return ("queue-wrong-result-after-release", f"a default-timeout {what} released by {how} returned {ret}", True)
            if t - rel > REL:
                return (("queue-peer-release-late" if how == "peer" else "queue-close-does-not-end-wait"),
                        f"a default-timeout {what} returned {t - rel:.1f} ms after the releasing {how}", False)
            return None
        # 200 ms
        if ret == "none":
            return ("queue-timed-wait-wrong-duration", f"a 200 ms {what} never returned", True)
        if t < 195.0 and (how == "none" or blocked != 1):
            return ("queue-timed-wait-returns-early", f"a 200 ms {what} returned {ret} after {t:.1f} ms although nothing had released it", True)
        if how == "none":
            if ret != "0":
                return ("queue-timed-wait-wrong-duration", f"a 200 ms {what} that nothing released returned true", True)
            if t > 330.0:
                return ("queue-timed-wait-wrong-duration", f"a 200 ms {what} returned after {t:.1f} ms", False)
            return None
        want = "1" if how == "peer" else "0"
        if blocked != 1:
            return ("queue-timed-wait-wrong-duration", f"the release at 80 ms came after the 200 ms {what} had timed out (round disturbed)", False)
        if ret != want:
            return ("queue-wrong-result-after-release", f"a 200 ms {what} released by {how} returned {ret} after {t:.1f} ms", t < 195.0)
        if t - rel > REL:
            return (("queue-peer-release-late" if how == "peer" else "queue-close-does-not-end-wait"),
                    f"a 200 ms {what} returned {t - rel:.1f} ms after the releasing {how}", False)
        return None
    if parts[0] == "wake_all":
        if blocked != 1:
            return ("queue-forever-timeout-returns-early", f"a default-timeout {parts[1]} returned {ret} after {t:.1f} ms although nothing had released it", True)
        if ret == "none":
            return ("queue-close-does-not-wake-all", f"one of three blocked {parts[1]} callers stayed blocked after close()", True)
        if ret != "0":
            return ("queue-wrong-result-after-release", f"a {parts[1]} woken by close() returned true", True)
        if t - rel > REL:
            return ("queue-close-does-not-wake-all", f"a blocked {parts[1]} caller returned {t - rel:.1f} ms after close()", False)
        return None
    if parts[0] == "close_race":
        if blocked != 1:
            return ("queue-forever-timeout-returns-early", f"a default-timeout get returned {ret} after {t:.1f} ms although nothing had released it", True)
        if ret == "none":
            return ("queue-close-does-not-wake-all", "a consumer blocked in get() stayed blocked after put(); close() (queue non-empty at close, then drained)", True)
        if t - rel > REL:
            return ("queue-close-does-not-wake-all", f"a blocked consumer returned {t - rel:.1f} ms after put(); close()", False)
        return None
    if parts[0] == "until_empty":
        how = parts[1]
        want = "1" if how == "peer" else "0"
        if blocked != 1:
            return ("queue-timed-wait-returns-early", f"get_until(now + 3 s) on an empty open queue returned {ret} after {t:.1f} ms although nothing had released it", True)
        if ret == "none":
            return ("queue-close-does-not-end-wait" if how == "close" else "queue-peer-release-late",
                    f"a getter blocked in get_until(now + 3 s) was still blocked long after the releasing {how}", True)
        if ret != want:
            return ("queue-wrong-result-after-release", f"get_until released by {how} returned {ret}", True)
        if t - rel > 1000.0:
            # far beyond any scheduling delay: the wait was not ended by the release but by its own deadline
            return ("queue-close-does-not-end-wait" if how == "close" else "queue-peer-release-late",
                    f"a getter blocked in get_until(now + 3 s) returned {t - rel:.1f} ms after the releasing {how} (it sat out its deadline)", True)
        if t - rel > REL:
            return ("queue-close-does-not-end-wait" if how == "close" else "queue-peer-release-late",
                    f"a getter blocked in get_until returned {t - rel:.1f} ms after the releasing {how}", False)
        return None
    if parts[0] == "close_race_put":
        if ret == "none":
            return ("queue-close-does-not-wake-all", "a producer blocked on a full queue stayed blocked after get(); close()", True)
        if d.get("bad", "0") != "0":
            return ("queue-put-after-close", f"get(); close() with a producer blocked on a full queue: in {d.get('bad')} of {d.get('trials')} trials the queue "
                    "reported is_closed() while still holding the producer's item (the put was accepted after close())", True)
        if d.get("lost", "0") != "0":
            return ("queue-drain-lost-items", f"an item whose put() returned true could not be retrieved in {d.get('lost')} trials", True)
        return None
    if parts[0] == "drain_until":
        k = int(parts[1][4:])
        exp_vals = ",".join(str(100 + i) for i in range(k))
        if ret == "none":
            return ("queue-drain-blocks", f"put x{k}; close; get_until x{k} blocked", True)
        if d.get("drained") != exp_vals or d.get("size_after") != "0":
            return ("queue-drain-lost-items", f"get_until: items accepted before close() were not handed out in order: got {d.get('drained')}, expected {exp_vals}", True)
        if d.get("closed_after_drain") != "1" or d.get("open_after_drain") != "0":
            return ("queue-drained-not-closed", f"after put x{k}; close; get_until x{k} the queue reports is_closed()={d.get('closed_after_drain')} "
                    f"is_open()={d.get('open_after_drain')}; a further get_until(300 ms) returned {d.get('until300_after_drain')} after {d.get('until300_ms')} ms", True)
        if d.get("until300_after_drain") != "0":
            return ("queue-drained-not-closed", "get_until(300 ms) on the drained closed queue returned true", True)
        if float(d.get("until300_ms", "0")) >= FAST:
            return ("queue-drained-not-closed", f"get_until on the drained closed queue took {d.get('until300_ms')} ms (expected an immediate false)", False)
        return None
    if parts[0] == "drain":
        k = int(parts[1][4:])
        exp_vals = ",".join(str(100 + i) for i in range(k)) or "-"
        if ret == "none" and "open_after_close" not in d:
            return ("queue-drain-blocks", f"put/close/get sequence at fill level {k} blocked", True)
        if d.get("open_after_close") != "0":
            return ("queue-open-after-close", "is_open() is true after close()", True)
        if d.get("closed_after_close") != ("1" if k == 0 else "0"):
            return ("queue-closed-state-wrong", f"is_closed() right after close() at fill level {k} is {d.get('closed_after_close')}", True)
        if d.get("put_after_close") != "0":
            return ("queue-put-after-close", "put after close() was accepted", True)
        if d.get("drained") != exp_vals or d.get("size_after") != "0":
            return ("queue-drain-lost-items", f"items accepted before close() were not handed out in order: got {d.get('drained')}, expected {exp_vals}", True)
        if d.get("closed_after_drain") != "1" or d.get("open_after_drain") != "0":
            return ("queue-drained-not-closed", f"after put x{k}; close; get x{k} the queue reports is_closed()={d.get('closed_after_drain')} "
                    f"is_open()={d.get('open_after_drain')}; a further get(300 ms) returned {d.get('get300_after_drain')} after {d.get('get300_ms')} ms", True)
        if d.get("get300_after_drain") != "0":
            return ("queue-drained-not-closed", "get(300 ms) on the drained closed queue returned true", True)
        if "getdefault_after_drain" not in d:
            return ("queue-drained-not-closed", "a default-timeout get on the drained closed queue blocked instead of failing at once", True)
        if d.get("getdefault_after_drain") != "0":
            return ("queue-drained-not-closed", "a default get on the drained closed queue returned true", True)
        for k2 in ("put_ms", "get300_ms", "getdefault_ms"):
            if float(d.get(k2, "0")) >= FAST:
                return ("queue-drained-not-closed" if k2 != "put_ms" else "queue-put-after-close",
                        f"{k2}={d.get(k2)} on a closed queue (expected an immediate false)", False)
        return None
    return None


def run_probes(ctx):
    exe = ctx.build_cpp("c16_harness", "c16.cpp")
    if not exe:
        return
    rounds = []
    disturbed = 0

    def one_round():
        nonlocal disturbed
        rc, out = ctx.run_exe(exe, timeout=120)
        probes = parse_probes(out)
        m = re.search(r"#heartbeat maxgap_ms=([0-9.]+)", out)
        if rc != 0 or len(probes) < 20 or not m:
            ctx.tie_broken("c16-probe-harness", f"probe harness exited {rc} with {len(probes)} probes: {out[-300:]}")
            return None
        quiet = float(m.group(1)) <= 30.0
        disturbed += 0 if quiet else 1
        rnd = len(rounds)
        rounds.append(dict(probes, heartbeat_maxgap_ms=m.group(1)))
        for n in probes:
            ctx.case(f"probe:{n}:round{rnd}", True)
            ctx.count("probe-" + n.split("/")[0])
        bad = {n: judge(n, d) for n, d in probes.items()}
        bad = {n: b for n, b in bad.items() if b}
        hard = {n: b for n, b in bad.items() if b[2]}
        soft = {n: b for n, b in bad.items() if not b[2]} if quiet else {}
        return hard, soft, quiet

    failing = {}
    base_rounds = 10 if ctx.tier == "thorough" else 1
    quiet_rounds = 0
    attempts = 0
    while quiet_rounds < base_rounds and attempts < base_rounds + 6:
        attempts += 1
        r = one_round()
        if r is None:
            return
        hard, soft, quiet = r
        quiet_rounds += 1 if quiet else 0
        if hard:
            failing = hard          # logical failures count at once
            break
        # a missed margin counts only if the same probe misses it again in two further undisturbed rounds
        confirm = 0
        tries = 0
        while soft and confirm < 2 and tries < 6:
            tries += 1
            r2 = one_round()
            if r2 is None:
                return
            h2, s2, q2 = r2
            if h2:
                failing = h2
                soft = {}
                break
            if q2:
                confirm += 1
                soft = {n: b for n, b in soft.items() if n in s2}
        if failing:
            break
        if soft and confirm >= 2:
            failing = soft
            break
    if quiet_rounds == 0 and not failing:
        ctx.notes.append(f"all {len(rounds)} probe rounds were disturbed by scheduling stalls > 30 ms: only the logical criteria "
                         "(early false, never released, wrong state) were judged, not the 50/100 ms margins")
    ctx.coverage["probe_rounds"] = len(rounds)
    ctx.coverage["probe_rounds_disturbed"] = disturbed
    ctx.sample({"probe": "put_full/default/close", "result": rounds[0].get("put_full/default/close")})
    ctx.sample({"probe": "drain/fill1", "result": rounds[0].get("drain/fill1")})
    seen = set()
    for n, (key, text, hard) in sorted(failing.items()):
        if key in seen:
            continue
        seen.add(key)
        ctx.violation(key, text, {"probe": n, "observed_in_each_round": [r.get(n) for r in rounds],
                                  "heartbeat_maxgap_ms": [r.get("heartbeat_maxgap_ms") for r in rounds],
                                  "how_to_replay": f"{exe}   (prints one line per probe; see harness/c16.cpp for the time line)",
                                  "margins_ms": {"at_once": FAST, "after_release": REL}})


def shutdown_oracle(ctx, runs):
    """On stress runs with close: no put that was invoked after a close() had returned may succeed."""
    for cfg, evs in runs:
        close_resp = None
        for i, (tid, kind, a, b, c, d) in enumerate(evs):
            if kind == "RESP" and a == 5 and close_resp is None:
                close_resp = i
        if close_resp is None:
            continue
        inv = {}
        for i, (tid, kind, a, b, c, d) in enumerate(evs):
            if kind == "INV":
                inv[tid] = i
            elif kind == "RESP" and a == 1 and b == 1 and inv.get(tid, -1) > close_resp:
                ctx.violation("queue-put-after-close", "a put invoked after close() had returned was accepted",
                              {"configuration": cfg, "value": c})
                return
            elif kind == "RESP" and a == 4 and c == 0 and b == 1 and inv.get(tid, -1) > close_resp:
                ctx.violation("queue-open-after-close", "is_open() invoked after close() had returned was true", {"configuration": cfg})
                return


def run(ctx):
    run_probes(ctx)
    wexe = ctx.build_cpp("c15_harness", "c15.cpp")
    if wexe:
        q15.run_wakeups(ctx, wexe)
    runs = q15.run_stress(ctx, prefix="c16", per_config=(12 if ctx.tier == "thorough" else 1), closer_only=True)
    shutdown_oracle(ctx, runs)
    gen = (COQ / "gen" / "ConstsQueue.v").read_text()
    for name in re.findall(r"Definition (\w+) : bool := false", gen):
        ctx.notes.append(f"source audit: {name} = false (the corresponding proof obligation of Properties_C16/C15 no longer holds)")
