"""C06 — acquisition from any history (PARTIAL: no-latch theorems for the carrier detector and the control logic + end-to-end test).

On every run:
  * constants regenerated (tools/consts/demod.py, including whether DataCarrierDetect::update() still guards the ratio), theorems of
    coq/Properties_C06.v rebuilt;
  * correspondence 1: DataCarrierDetect::update()/unlock() of the real code vs the extracted model on generated member values
    (finite, zero, +-inf, NaN; level near the thresholds) — class of level_ exactly, value within 1e-5, triggered_ exactly except within
    1e-5 of a threshold;
  * correspondence 2: per-sample trace inclusion of the control model and per-update comparison of the detector model on the traced runs;
  * property oracle on the real code: for every lead-in history, carrier detect asserted and eight consecutive bit-exact frames within
    400 frames of the start of a clean transmission (a case that has not reached steady reception within 120 frames is re-run with a
    420-frame transmission so that the 400-frame bound itself is decided).
"""
import struct

import c03rig
from props import c03 as c03mod
from vlib import COQ, VERIF

PROPERTY = "C06"
CONSTS = ["demod"]
COQ_TARGETS = ["Properties_C06.vo", "Extract_C03.vo"]
PROPERTIES_FILE = "Properties_C06.v"
LEVEL = "other"
EXPLANATION = (
    "PARTIAL. THEOREMS (Coq): (A) about the model of DataCarrierDetect::update()/unlock()/dcd() over extended rationals "
    "(Fin q | +inf | -inf | NaN with the IEEE rules for 0/0, x/0, NaN propagation and comparisons; binary rounding, signed zeros and overflow of "
    "finite operations NOT modelled): c06_dcd_level_finite (for every interleaving of sample accumulation with arbitrary energies, update() and "
    "unlock(), a finite level_ stays finite), c06_dcd_asserts / c06_dcd_releases (explicit block counts: 0.8^n (R - level) < R - htrigger, resp. "
    "0.8^n (level - R) < ltrigger - R), c06_dcd_unguarded_latches(_on) (the pre-fix update() latches NaN / non-finite for ever), "
    "c06_dcd_poll_abstracts_update; (B) about the control-logic model ImplDemodCtl.v: c06_ctl_no_dead_state (from every well-formed discrete "
    "state, under carrier, in-range float indices and a fair clock, within 6424 samples the decoder has been called or the receiver is listening "
    "for a frame sync word), c06_detection_decodes (a listening receiver turns a detection into a decode within 2036 samples), "
    "c06_recycle_rearms (after every dcd.unlock() the receiver listens again within 3648 samples).  "
    "TIES: DataCarrierDetect member-value differential; per-sample public-member trace inclusion; constants incl. the presence of the isfinite guard.  "
    "ONLY TESTED (end to end, on the real code): that a clean M17 signal yields a block ratio above htrigger and sync-word detections, that the "
    "analogue estimators converge after each history, and the 400-frame bound.  NOT MODELLED: SlidingDFT/energies (inputs of the model), all "
    "floating-point signal processing."
)
RULE = ("lead-in histories: exact zeros 0.1..5 s (also from the first sample), Gaussian/uniform noise sigma 1e-4..0.5, constants, tones (incl. the "
        "detector's 2400/3600 Hz), noise then zeros, zeros then noise, an earlier complete or truncated transmission followed by a gap of 0..2 s "
        "(zeros or noise); then a clean transmission (channel parameters from C03's envelope) of 120 frames, re-run with 420 frames if steady "
        "reception was not reached.  Non-trivial: every case (each decides the property for one history); distinct by history kind + parameters.  "
        "DataCarrierDetect differential: 3000 (thorough 30000) member-value cases.")
ASSUMPTIONS = c03mod.ASSUMPTIONS + ["the property's bound is decided on transmissions of 420 frames when 120 frames do not suffice"]
TRUSTED = c03mod.TRUSTED

KINDS = ["zeros", "zeros0", "noise", "const", "tone", "prevtx", "trunctx", "noise+zeros", "zeros+noise", "trunctx0"]


def build_model(ctx):
    c03mod.build_model(ctx)


def f32(x):
    return struct.unpack("<f", struct.pack("<f", x))[0]


def fhex(x):
    if x != x:
        return "nan"
    if x in (float("inf"), float("-inf")):
        return "inf" if x > 0 else "-inf"
    return float(x).hex()


def gen_dcd_cases(ctx, n):
    r = ctx.rng.fork("c06-dcd")
    cases = []
    specials = [0.0, float("nan"), float("inf"), float("-inf")]

    def fin():
        e = r.range(-60, 60) / 10.0
        m = 1.0 + r.below(1 << 20) / float(1 << 20)
        return f32(m * (10.0 ** e))

    for k in range(n):
        kind = r.below(10)
        trig = r.below(2)
        if kind < 5:
            lv, l1, l2 = f32(r.below(4000) / 100.0), fin(), fin()
        elif kind == 5:
            lv, l1, l2 = fin(), r.choice([0.0, fin()]), 0.0
        elif kind == 6:
            lv, l1, l2 = r.choice(specials + [fin()]), r.choice(specials + [fin()]), r.choice(specials + [fin()])
        elif kind == 7:      # level that lands near a threshold: level' = 0.8 lv + 0.2 ratio
            thr = r.choice([0.1, 4.0])
            ratio = f32(r.below(2000) / 100.0)
            lv = f32((thr - 0.2 * ratio) / 0.8 + (r.below(2001) - 1000) * 1e-4)
            l1, l2 = f32(ratio), 1.0
        elif kind == 8:
            lv, l1, l2 = f32(-r.below(1000) / 10.0), fin(), fin()
        else:
            lv, l1, l2 = fin(), fin(), fin()
        unlock = " u" if r.chance(1, 12) else ""
        ctx.count(["finite", "finite", "finite", "finite", "finite", "zero-denominator", "specials", "near-threshold", "negative-level", "wide"][kind])
        cases.append(f"{fhex(lv)} {fhex(l1)} {fhex(l2)} {trig}{unlock}")
    return cases


def history(r, kind):
    """lead-in segments; returns (segments, list of LSFs of earlier transmissions)"""
    P = c03mod
    if kind == "zeros":
        return [f"seg noise {r.range(0, 3000)} 0.01 g", f"seg zeros {r.range(4800, 240000)}"], []
    if kind == "zeros0":
        return [f"seg zeros {r.range(4800, 240000)}"], []
    if kind == "noise":
        return [f"seg noise {r.range(9600, 144000)} {r.choice([1e-4, 1e-3, 1e-2, 0.1, 0.5])} {r.choice(['g', 'u'])}"], []
    if kind == "const":
        return [f"seg const {r.range(4800, 96000)} {r.choice([0.5, -0.8, 0.001, 1.0])}"], []
    if kind == "tone":
        return [f"seg tone {r.range(9600, 96000)} {r.choice([100, 1200, 2400, 3600, 4800, 7000])} {r.choice([0.05, 0.3, 1.0])}"], []
    if kind in ("prevtx", "trunctx", "trunctx0"):
        ptx = c03rig.make_tx(r, r.range(3, 40))
        tot = len(ptx["symbols"]) * 10
        maxn = -1 if kind == "prevtx" else r.range(200, tot - 100)
        segs = [f"seg noise {r.range(0, 5000)} 0.001 g",
                c03rig.tx_seg(ptx, False, r.below(10) / 10, r.choice(P.PPMS), r.choice(P.GAINS), r.choice(P.DCS), 0.0, maxn)]
        gap = 0 if kind == "trunctx0" else r.choice([0, r.range(1, 480), r.range(480, 9600), r.range(9600, 96000)])
        if gap:
            segs.append(r.choice([f"seg zeros {gap}", f"seg noise {gap} 0.001 g"]))
        return segs, [ptx["lsf"]]
    if kind == "noise+zeros":
        return [f"seg noise {r.range(4800, 48000)} {r.choice([1e-3, 0.1, 0.5])} g", f"seg zeros {r.range(1, 48000)}"], []
    if kind == "zeros+noise":
        return [f"seg zeros {r.range(4800, 96000)}", f"seg noise {r.range(100, 48000)} {r.choice([1e-3, 0.1, 0.5])} g"], []
    raise ValueError(kind)


def gen_cases(ctx, n, nframes, trace_every):
    rng = ctx.rng.fork("c06-grid")
    cases = []
    for k in range(n):
        r = rng.fork(f"case{k}")
        kind = KINDS[k % len(KINDS)]
        par = {"tau": r.below(10) / 10.0, "ppm": r.choice(c03mod.PPMS), "gain": r.choice(c03mod.GAINS), "dc": r.choice(c03mod.DCS),
               "snr": r.choice(c03mod.SNRS), "history": kind}
        lead_r = r.fork("lead")
        segs, prev = history(lead_r, kind)
        par["lead_segments"] = [s[:80] for s in segs]
        tx_seed = r.fork("tx")
        noise_seed = r.next() & 0xFFFFFFFF
        trace = trace_every > 0 and (k % trace_every == 0)
        cases.append(make_case(k, par, segs, prev, tx_seed, noise_seed, nframes, trace))
    # a short stretch of exact silence right after power-on, then the transmission at everyday levels (the sync-word objects have
    # seen nothing but zeros: whatever they keep between triggers is whatever they were constructed with)
    for j, (nz, gain) in enumerate([(4000, 1.0), (4000, 0.5), (2000, 1.0), (6000, 0.5), (4000, 2.0), (1000, 0.7)][:(6 if n >= 40 else 4)]):
        k = n + j
        r = rng.fork(f"short-silence{j}")
        par = {"tau": r.below(10) / 10.0, "ppm": 0, "gain": gain, "dc": 0.0, "snr": None, "history": "short-zeros0"}
        segs, prev = [f"seg zeros {nz}"], []
        par["lead_segments"] = segs
        cases.append(make_case(k, par, segs, prev, r.fork("tx"), r.next() & 0xFFFFFFFF, nframes, False))
    return cases


def make_case(k, par, segs, prev, tx_seed, noise_seed, nframes, trace):
    tx = c03rig.make_tx(c03rig_copy(tx_seed), nframes)
    sig = c03rig.sigma_for_snr(par["gain"], par["snr"])
    text = c03rig.case_text(noise_seed, trace, segs + [c03rig.tx_seg(tx, True, par["tau"], par["ppm"], par["gain"], par["dc"], sig), "seg zeros 4800"])
    return {"name": f"c06_{k}_{nframes}", "text": text, "trace": trace, "tx": tx, "par": dict(par, frames=nframes), "k": k,
            "segs": segs, "prev": prev, "tx_seed": tx_seed, "noise_seed": noise_seed}


def c03rig_copy(rng):
    """a fresh generator with the same state (so that the 420-frame re-run starts with the same LSF and the same first frames)"""
    import vlib
    g = vlib.SplitMix64(0)
    g.s = rng.s
    return g


def gap_after_earlier_tx(segs):
    """samples between the end of the last earlier transmission of the lead-in and the start of the transmission; None if there is none"""
    gap = None
    for sg in segs:
        t = sg.split()
        if t[:2] == ["seg", "tx"]:
            gap = 0
        elif gap is not None:
            gap += int(t[2])
    return gap


def classify_failure(res, tx, start, status, detail, segs=()):
    """stable key of an acquisition failure, from what the run itself shows"""
    sf = c03rig.stream_frames_after(res, start)
    fin = res.get("dcd_final")
    ever = detail.get("dcd_ever_asserted_during_tx", True)
    detail["stream_callbacks_during_tx"] = len(sf)
    detail["dcd_final"] = fin
    if fin is not None and not fin["finite"]:
        return "dcd-nan-latch"
    if status == "not-acquired" and not ever and not sf:
        return "dcd-never-asserted"
    locked_all = c03rig.locked_at(res, start) and not any(s == 0 and start <= t <= start + 100 * c03rig.FRAME_SAMPLES for t, s in res["lock"])
    bit_exact = sum(1 for _, h, _ in sf if h in set(tx["frames"]))
    detail["bit_exact_frames"] = bit_exact
    detail["carrier_flag_held_from_before_start_through_100_frames"] = locked_all
    costs = [c for _, _, c in sf[:100]]
    bit_exact_first100 = sum(1 for _, h, _ in sf[:100] if h in set(tx["frames"]))
    detail["bit_exact_among_first_100_callbacks"] = bit_exact_first100
    # the symptom of the recorded finding: carrier flag held, at least 100 frames handed up, none of the first 100 is a frame of
    # the transmission, their median Viterbi cost is below the coasting limit (whether or not reception recovers much later)
    if locked_all and len(sf) >= 100 and bit_exact_first100 == 0 and costs and sorted(costs)[len(costs) // 2] < 80:
        detail["median_cost_of_first_100_callbacks"] = sorted(costs)[len(costs) // 2]
        gap = gap_after_earlier_tx(segs)
        detail["gap_after_earlier_transmission_samples"] = gap
        # the recorded finding is about an earlier transmission followed by a SHORT gap (< 0.25 s); the same symptom after any
        # other history is a different failure
        return "deaf-coasting-on-garbage" if gap is not None and gap <= 12000 else "deaf-coasting-on-garbage-other-history"
    return "acquired-late" if status == "late" else "not-acquired-within-400-frames"


def run(ctx):
    exe = ctx.build_cpp("c03_harness", "c03.cpp")
    if exe is None:
        return
    thorough = ctx.tier == "thorough"
    model = getattr(ctx, "model", None)
    # ---- correspondence 1: DataCarrierDetect member-value differential
    dcases = gen_dcd_cases(ctx, 30000 if thorough else 3000)
    text = "\n".join(dcases) + "\n"
    (ctx.workdir / "dcd_cases.txt").write_text(text)
    rc, impl = ctx.run_exe(exe, ["dcd"], input_text=text)
    impl_lines = impl.strip("\n").split("\n")
    if rc != 0 or len(impl_lines) != len(dcases):
        ctx.tie_broken("dcd-harness-run", f"rc={rc}, {len(impl_lines)} lines for {len(dcases)} cases")
    elif model:
        merged = "\n".join(f"{c} | {i}" for c, i in zip(dcases, impl_lines)) + "\n"
        rc2, mout = ctx.run_exe(model, ["dcd"], input_text=merged)
        bad = ctx.diff_lines("dcd-update-impl-vs-model", [f"{c} -> impl {i}" for c, i in zip(dcases, impl_lines)], "ok\n" * len(dcases), mout)
        ctx.coverage["dcd_member_differential"] = {"cases": len(dcases), "disagreements": len(bad)}
        # the property-level reading of that comparison, on the real code alone: a finite level must stay finite
        for c, i in zip(dcases, impl_lines):
            t, o = c.split(), i.split()
            def val(x):
                return float(x) if x in ("nan", "inf", "-inf") else float.fromhex(x)
            lv, a1, a2 = val(t[0]), val(t[1]), val(t[2])
            reachable = all(v == v and abs(v) != float("inf") for v in (lv, a1, a2)) and a1 >= 0 and a2 >= 0   # finite level, finite energies >= 0
            if reachable and len(t) == 4 and o[4] != "1":
                ctx.violation("dcd-update-nonfinite", "DataCarrierDetect::update() turned a finite level_ into a non-finite one from finite non-negative "
                              "block energies (it never leaves the average again)",
                              {"members_before": {"level_": t[0], "level_1": t[1], "level_2": t[2], "triggered_": t[3]},
                               "after_update": {"level_": o[0], "triggered_": o[1]}, "replay_cmd": f"echo '{c}' | {exe} dcd"})
                break
    for c in dcases:
        ctx.case("dcd " + c)
    ctx.sample({"dcd_case(level_ level_1 level_2 triggered_)": dcases[0], "impl(level_ triggered_ l1 l2 finite)": impl_lines[0] if impl_lines else None})
    # ---- end to end
    n = 400 if thorough else 40
    cases = gen_cases(ctx, n, 120, trace_every=(5 if thorough else 1))
    results = c03rig.run_cases(ctx, exe, model, cases)
    c03mod.check_traces(ctx, cases, results, "ctl-and-dcd-trace-inclusion")
    # escalation: decide the 400-frame bound on a 420-frame transmission
    need = []
    for c, r in zip(cases, results):
        if r["rc"] != 0 or not r["main"] or r["end"] is None:
            ctx.tie_broken("c06-harness-run", f"harness failed on {c['name']} rc={r['rc']} ({r['case_file']})")
            continue
        status, detail = c03rig.oracle_c06(r, c["tx"], r["main"][-1])
        c["status"], c["detail"] = status, detail
        if status != "ok":
            need.append(c)
    long_cases = [make_case(c["k"], {a: b for a, b in c["par"].items() if a != "frames"}, c["segs"], c["prev"], c["tx_seed"], c["noise_seed"], 420, False)
                  for c in need]
    long_results = c03rig.run_cases(ctx, exe, None, long_cases) if long_cases else []
    final = {c["k"]: (c, r) for c, r in zip(cases, results) if "status" in c}
    for c, r in zip(long_cases, long_results):
        if r["rc"] != 0 or not r["main"]:
            ctx.tie_broken("c06-harness-run", f"harness failed on {c['name']} rc={r['rc']}")
            continue
        status, detail = c03rig.oracle_c06(r, c["tx"], r["main"][-1])
        c["status"], c["detail"] = status, detail
        final[c["k"]] = (c, r)
    acq = []
    for k in sorted(final):
        c, r = final[k]
        par = c["par"]
        key = "history=%(history)s tau=%(tau).1f ppm=%(ppm)d gain=%(gain)g dc=%(dc)g snr=%(snr)s" % par
        ctx.case(c["name"] + " " + key)
        ctx.count(f"history={par['history']}")
        status, detail = c["status"], c["detail"]
        if len(ctx.samples) < 5:
            ctx.sample({"case": key, "lead_in": par["lead_segments"], "verdict": status, "steady_reached_at_frame": detail.get("steady_reached_at_frame")})
        if status == "ok":
            acq.append(detail["steady_reached_at_frame"])
            continue
        start = r["main"][-1]
        kkey = classify_failure(r, c["tx"], start, status, detail, c["segs"])
        ctx.violation(kkey, "after this history the real demodulator did not reach steady reception (carrier detect + eight consecutive bit-exact frames) "
                            "within 400 frames of the start of a clean transmission",
                      {"case_file": r["case_file"], "replay_cmd": f"{exe} run {r['case_file']}", "parameters": par,
                       "frames_transmitted": par["frames"], "detail": detail})
    ctx.coverage["histories_decided"] = len(final)
    ctx.coverage["re_run_with_420_frames"] = len(long_cases)
    if acq:
        acq.sort()
        ctx.coverage["frames_until_steady_reception"] = {"min": acq[0], "median": acq[len(acq) // 2], "max": acq[-1]}
