"""Shared runner and property oracles for the frame-decoder checks (C01, C05, C08).

run_histories(ctx, histories) feeds each history (list of frames from fdgen) to
  (a) the real M17FrameDecoder (harness/decoder.cpp, one fresh decoder per history, or pre-dirtied),
  (b) the extracted Coq model (ocaml/fd_driver.ml) when it is available,
and returns the parsed observations of both.
"""
import fdgen
import m17ref as R
from vlib import COQ, VERIF

MODE_AFTER_TYPE = None


def build_model(ctx):
    ctx.model = ctx.build_ocaml("fd_driver", [COQ / "fd_model.mli", COQ / "fd_model.ml", VERIF / "ocaml" / "fd_driver.ml"])


def script(histories, prefix_of=None):
    lines = []
    for i, h in enumerate(histories):
        lines.append("new")
        if prefix_of and prefix_of[i]:
            for fr in prefix_of[i]:
                lines.append(fdgen.frame_cmd(fr))
        for fr in h:
            lines.append(fdgen.frame_cmd(fr))
    return lines


def run_impl(ctx, exe, histories, prefix_of=None, timeout=1800):
    lines = script(histories, prefix_of)
    rc, out = ctx.run_exe(exe, input_text="\n".join(lines) + "\n", timeout=timeout)
    outl = out.strip("\n").split("\n")
    if rc != 0 or len(outl) != len(lines):
        ctx.tie_broken("decoder-harness-run", f"harness exit {rc}, {len(outl)} result lines for {len(lines)} commands; tail: {out[-300:]}")
        return None, lines, outl
    res, k = [], 0
    for i, h in enumerate(histories):
        k += 1  # "ok" for new
        npre = len(prefix_of[i]) if prefix_of and prefix_of[i] else 0
        k += npre
        res.append([fdgen.parse_result(outl[k + j]) for j in range(len(h))])
        k += len(h)
    return res, lines, outl


def run_model(ctx, histories, prefix_of=None, timeout=3600, workers=16):
    """the extracted model on the same histories; sharded over processes (each history starts with `new`)"""
    if not getattr(ctx, "model", None):
        return None
    import concurrent.futures as cf
    n = len(histories)
    nshards = max(1, min(workers, n // 8 or 1))
    bounds = [(k * n // nshards, (k + 1) * n // nshards) for k in range(nshards)]

    def one(b):
        lo, hi = b
        pre = prefix_of[lo:hi] if prefix_of else None
        lines = script(histories[lo:hi], pre)
        rc, out = ctx.run_exe(ctx.model, input_text="\n".join(lines) + "\n", timeout=timeout)
        outl = out.strip("\n").split("\n")
        if rc != 0 or len(outl) != len(lines):
            return ("err", f"model driver exit {rc}, {len(outl)} lines for {len(lines)} commands; tail: {out[-300:]}")
        res, k = [], 0
        for i, h in enumerate(histories[lo:hi]):
            k += 1
            npre = len(pre[i]) if pre and pre[i] else 0
            k += npre
            res.append([fdgen.parse_result(outl[k + j]) for j in range(len(h))])
            k += len(h)
        return ("ok", res)

    with cf.ThreadPoolExecutor(max_workers=nshards) as ex:
        parts = list(ex.map(one, bounds))
    out = []
    for tag, val in parts:
        if tag == "err":
            ctx.tie_broken("decoder-model-run", val)
            return None
        out.extend(val)
    return out


def compare(ctx, name, histories, impl, model):
    """exact comparison of observations; returns list of (history index, step index)"""
    bad = []
    if impl is None or model is None:
        return bad
    for i, (a, b) in enumerate(zip(impl, model)):
        for j, (x, y) in enumerate(zip(a, b)):
            if x != y:
                bad.append((i, j))
                break
    if bad:
        i, j = bad[0]
        meta = [fr[3] for fr in histories[i][: j + 1]]
        ctx.tie_broken(name, f"{len(bad)} of {len(histories)} histories differ; first: history#{i} step {j}: impl={impl[i][j]} model={model[i][j]} frames={str(meta)[:600]}")
    return bad


# ---------------------------------------------------------------------------------------------------- oracles
def type_mode(lsf_hex, mode):
    t = bytes.fromhex(lsf_hex)[13]
    if t & 1:
        return "STREAM" if (t >> 2) & 1 else mode
    return "BASIC_PACKET" if ((t >> 1) & 3) == 1 else "FULL_PACKET"


class Ghost:
    """The documented state of the decoder: mode, which LICH slots are filled, the LSF assembly buffer."""

    def __init__(self):
        self.mode = "LSF"
        self.seg = 0
        self.lsf = bytearray(30)

    def copy(self):
        g = Ghost()
        g.mode, g.seg, g.lsf = self.mode, self.seg, bytearray(self.lsf)
        return g


def oracle_step(g, fr, obs):
    """Check one observation of the REAL decoder against the property statements (C05, C08); advance the ghost.
    Returns None or (key, text)."""
    sync, soft, cbret, meta = fr
    cbs = obs["cbs"]
    # C05: every reported LSF is CRC-valid
    for ty, hx, cost in cbs:
        if ty == "LSF" and R.crc16(bytes.fromhex(hx)) != 0:
            return ("lsf-reported-with-bad-crc", "an LSF with a failing CRC was handed to the callback")
    if sync == "L":
        # LSF sync always restarts link setup
        if obs["res"] == "OK":
            if len(cbs) != 1 or cbs[0][0] != "LSF":
                return ("lsf-ok-without-callback", "LSF frame returned OK without exactly one LSF callback")
            g.lsf = bytearray(bytes.fromhex(cbs[0][1]))
            g.mode = type_mode(cbs[0][1], "LSF")
        elif obs["res"] == "FAIL":
            if cbs:
                return ("lsf-fail-with-callback", "LSF frame failed but a callback was made")
            g.mode, g.seg, g.lsf = "LSF", 0, bytearray(30)
        else:
            return ("lsf-bad-result", f"LSF sync returned {obs['res']}")
        if meta.get("kind") == "lsf" and not meta.get("flips"):
            if obs["res"] != "OK" or cbs[0][1] != meta["lsf"]:
                return ("clean-lsf-not-decoded", "a clean LSF frame was not returned bit-exact")
    elif sync == "S":
        if g.mode == "LSF":
            if obs["res"] == "FAIL":
                if cbs:
                    return ("lich-fail-with-callback", "LICH unpack failed but a callback was made")
                if meta.get("kind") == "stream" and not meta.get("flips") and max(meta.get("lich_err", [0])) <= 3:
                    return ("lich-correctable-rejected", "a LICH whose Golay words carry <= 3 errors each was rejected")
            else:
                if not cbs or cbs[0][0] != "LICH":
                    return ("lich-no-callback", "stream frame in link-setup mode: no LICH callback")
                lich = bytes.fromhex(cbs[0][1])
                if meta.get("kind") == "stream" and not meta.get("flips") and max(meta.get("lich_err", [0])) <= 3:
                    want = bytes.fromhex(meta["chunk"]) + bytes([(meta["n"] & 7) << 5])
                    if lich != want:
                        return ("lich-wrong-bytes", "LICH bytes differ from the transmitted fragment")
                n = (lich[5] >> 5) & 7
                if n > 5:
                    if obs["res"] != "INCOMPLETE" or len(cbs) != 1:
                        return ("lich-out-of-range-fragment", "fragment number 6/7 did not simply return INCOMPLETE")
                else:
                    g.lsf[5 * n:5 * n + 5] = lich[:5]
                    g.seg |= 1 << n
                    complete = (g.seg & 0x3F) == 0x3F and R.crc16(bytes(g.lsf)) == 0
                    if complete:
                        if obs["res"] != "OK" or len(cbs) != 2 or cbs[1][0] != "LSF" or bytes.fromhex(cbs[1][1]) != bytes(g.lsf):
                            return ("lich-reassembly-not-reported", "all six slots hold the fragments of one CRC-valid LSF but it was not reported bit-exact")
                        g.seg = 0
                        g.mode = "STREAM"
                    else:
                        if obs["res"] != "INCOMPLETE" or len(cbs) != 1:
                            return ("lich-incomplete-misreported", "incomplete/invalid reassembly did not return INCOMPLETE with the LICH callback only")
        elif g.mode == "STREAM":
            if obs["res"] != "OK" or len(cbs) != 1 or cbs[0][0] != "STREAM":
                return ("stream-frame-not-decoded", "stream frame in stream mode must be payload-decoded (OK, one STREAM callback)")
            if meta.get("kind") == "stream" and not meta.get("flips"):
                want = ((meta["fn"] & 0x7FFF) | (0x8000 if meta["eos"] else 0)).to_bytes(2, "big").hex() + meta["payload"]
                if cbs[0][1] != want:
                    return ("clean-stream-not-decoded", "a clean stream payload was not returned bit-exact")
        else:
            if obs["res"] != "FAIL" or cbs:
                return ("stream-sync-in-wrong-mode", "stream sync outside link-setup/stream mode must fail without callback")
            g.mode = "LSF"
    elif sync == "P":
        if g.mode in ("BASIC_PACKET", "FULL_PACKET"):
            if len(cbs) != 1 or cbs[0][0] != g.mode:
                return ("packet-frame-not-decoded", "packet frame in packet mode: expected exactly one packet callback of the mode's type")
            last = bytes.fromhex(cbs[0][1])[25] & 0x80
            if last:
                want = "OK" if cbret else "FAIL"
                if obs["res"] != want:
                    return ("packet-eof-result", f"EOF packet frame must return {want} (the callback's verdict)")
                g.mode = "LSF"
            elif obs["res"] != "PACKET_INCOMPLETE":
                return ("packet-incomplete-result", "non-final packet frame must return PACKET_INCOMPLETE")
            if meta.get("kind") == "packet" and not meta.get("flips"):
                d = bytes.fromhex(meta["data"])
                wantb = d + bytes([(0x80 if meta["eof"] else 0) | ((meta["counter"] & 31) << 2)])
                if bytes.fromhex(cbs[0][1]) != wantb:
                    return ("clean-packet-not-decoded", "a clean packet payload was not returned bit-exact")
        else:
            if obs["res"] != "FAIL" or cbs:
                return ("packet-sync-in-wrong-mode", "packet sync outside packet mode must fail without callback")
            g.mode = "LSF"
    elif sync == "B":
        if obs["res"] != "OK" or len(cbs) != 1 or cbs[0][0] != "BERT":
            return ("bert-not-decoded", "BERT sync must always decode BERT (OK, one BERT callback)")
        g.mode = "BERT"
        if meta.get("kind") == "bert" and not meta.get("flips"):
            want = R.bytes_of_bits([int(c) for c in meta["bits"]]).hex()
            if cbs[0][1] != want:
                return ("clean-bert-not-decoded", "a clean BERT payload was not returned bit-exact")
    if obs["state"] != g.mode:
        return ("mode-not-as-documented", f"decoder mode {obs['state']} but the documented state machine is in {g.mode}")
    return None


def oracle_history(ctx, hist, obs_list, what="history"):
    g = Ghost()
    for j, (fr, obs) in enumerate(zip(hist, obs_list)):
        v = oracle_step(g, fr, obs)
        if v:
            key, text = v
            ctx.violation(key, text, {"what": what, "step": j, "observation": obs,
                                      "frames": [{"sync": f[0], "soft_hex": R.soft_hex(f[1]), "cbret": f[2], "meta": f[3]} for f in hist[: j + 1]]})
            return False
    return True


def clean_cost_oracle(ctx, hist, obs_list):
    """C01: full-confidence clean frames are reported with cost 0 (LSF, stream, packet; BERT too since the depuncture fix)"""
    for j, (fr, obs) in enumerate(zip(hist, obs_list)):
        meta = fr[3]
        if meta.get("flips") or meta.get("kind") not in ("lsf", "stream", "packet", "bert"):
            continue
        if meta.get("kind") == "stream" and max(meta.get("lich_err", [0])) > 0:
            continue
        if all(abs(v) == 7 for v in fr[1]):
            for ty, hx, cost in obs["cbs"]:
                if ty in ("LSF", "STREAM", "BASIC_PACKET", "FULL_PACKET", "BERT") and cost != 0 and not (ty == "LSF" and len(obs["cbs"]) == 2):
                    ctx.violation("clean-frame-nonzero-cost", f"a full-confidence error-free {ty} frame was reported with cost {cost}",
                                  {"step": j, "observation": obs, "frame": {"sync": fr[0], "soft_hex": R.soft_hex(fr[1]), "meta": meta}})
                    return False
    return True


def crc_gate_probe(ctx, exe, rng, n_double=600, n_burst=600, n_lich=60, label="crc-gate"):
    """The decoder's CRC gates (decode_lsf and the LICH reassembly), on link setup frames corrupted BEFORE encoding so that the
    FEC delivers exactly the corrupted 30 bytes: every single-bit error, random double-bit errors, bursts of up to 16 bits, and
    errors confined to the CRC field whose residue has a zero low / zero high byte.  All of these classes change the M17 CRC
    (Properties_C09), so none may be reported; the uncorrupted frame must be.  Returns the number of frames fed."""
    r = rng
    g = fdgen.Gen(r)
    A = fdgen.make_lsf(r, "voice")
    pats = []                                   # (class, 30-byte xor pattern)
    for i in range(240):
        p = bytearray(30); p[i // 8] ^= 0x80 >> (i % 8); pats.append(("single", bytes(p)))
    for _ in range(n_double):
        i, j = r.below(240), r.below(240)
        if i == j:
            continue
        p = bytearray(30); p[i // 8] ^= 0x80 >> (i % 8); p[j // 8] ^= 0x80 >> (j % 8); pats.append(("double", bytes(p)))
    for d in range(1, 256):
        pats.append(("crc-high-byte", bytes(28) + bytes([d, 0])))
        pats.append(("crc-low-byte", bytes(28) + bytes([0, d])))
    for _ in range(n_burst):
        w = r.range(2, 16)
        v = (1 << (w - 1)) | 1 | (r.below(1 << w))         # both ends set: a burst of exactly w bits
        s0 = r.below(240 - w + 1)
        x = v << (240 - s0 - w)
        pats.append(("burst", x.to_bytes(30, "big")))
    hist, exp = [], []
    for k, (cls, p) in enumerate(pats):
        bad = bytes(a ^ b for a, b in zip(A, p))
        hist.append(g.lsf_frame(bad)); exp.append((cls, bad, False))
        if k % 40 == 0:
            hist.append(g.lsf_frame(A)); exp.append(("valid", A, True))
    # the same through the LICH: six fragments of a corrupted LSF, then six of the valid one
    lich_hists, lich_exp = [], []
    for k in range(n_lich):
        cls, p = pats[r.below(len(pats))]
        bad = bytes(a ^ b for a, b in zip(A, p))
        h = [g.stream_frame(bad, n, n, r.bytes(16)) for n in r.shuffle(range(6))]
        h += [g.stream_frame(A, n, n, r.bytes(16)) for n in r.shuffle(range(6))]
        lich_hists.append(h); lich_exp.append((cls, bad))
    impl, lines, outl = run_impl(ctx, exe, [hist] + lich_hists)
    if impl is None:
        return 0
    nfed = len(hist) + sum(len(h) for h in lich_hists)
    for (cls, lsf, want), ob in zip(exp, impl[0]):
        ctx.count(f"{label}-{cls}")
        rep = [c for c in ob["cbs"] if c[0] == "LSF"]
        if want and (ob["res"] != "OK" or not rep or rep[0][1] != lsf.hex()):
            ctx.violation("lsf-gate-rejects-valid", "a valid link setup frame (CRC zero) is not reported by decode_lsf",
                          {"lsf": lsf.hex(), "observation": ob})
            return nfed
        if not want and (ob["res"] == "OK" or rep):
            ctx.violation("lsf-gate-accepts-bad-crc", "decode_lsf reports a link setup frame whose 30 bytes do not pass the M17 CRC "
                          f"(error class: {cls})", {"lsf_sent": lsf.hex(), "crc_of_sent": "%04x" % R.crc16(lsf), "valid_lsf": A.hex(),
                                                    "observation": ob})
            return nfed
    for (cls, bad), h, obs in zip(lich_exp, lich_hists, impl[1:]):
        ctx.count(f"{label}-lich-{cls}")
        for fi, ob in enumerate(obs[:6]):
            rep = [c for c in ob["cbs"] if c[0] == "LSF"]
            if rep:
                ctx.violation("lich-gate-accepts-bad-crc", "the LICH reassembly reports a link setup frame whose 30 bytes do not pass the "
                              f"M17 CRC (error class: {cls})", {"lsf_sent": bad.hex(), "crc_of_sent": "%04x" % R.crc16(bad),
                                                                "reported": rep[0][1], "frame_index": fi})
                return nfed
        # the fragments of the valid LSF replace the corrupted ones slot by slot: it must be reported by the first frame after
        # which all six held fragments are its own (ghost), and not before
        held = [bad[5 * n:5 * n + 5] for n in range(6)]
        due = None
        for fi in range(6, 12):
            n = h[fi][3]["n"]
            held[n] = A[5 * n:5 * n + 5]
            if due is None and all(held[k] == A[5 * k:5 * k + 5] for k in range(6)):
                due = fi
        for fi in range(6, 12):
            rep = [c for c in obs[fi]["cbs"] if c[0] == "LSF"]
            if fi < due and rep:
                ctx.violation("lich-gate-accepts-bad-crc", "the LICH reassembly reports a link setup frame while a held fragment is "
                              "still from the corrupted frame", {"lsf_sent": bad.hex(), "valid_lsf": A.hex(), "reported": rep[0][1],
                                                                 "frame_index": fi})
                return nfed
            if fi == due and (not rep or rep[0][1] != A.hex()):
                ctx.violation("lich-gate-rejects-valid", "fragments of a valid link setup frame replacing a corrupted one: not reported "
                              "when the last differing fragment arrives", {"lsf": A.hex(), "corrupted": bad.hex(), "frame_index": fi,
                                                                          "observation": obs[fi]})
                return nfed
    return nfed
    return nfed
