#!/usr/bin/env python3
"""Regenerate every constants file from /repo, (re)create the Coq makefile and build all .vo files."""
import importlib
import os
import sys
from pathlib import Path

sys.path.insert(0, str(Path(__file__).resolve().parent))
import vlib  # noqa: E402


class AllConsts:
    PROPERTY = "setup"
    CONSTS = sorted(p.stem for p in (vlib.VERIF / "tools" / "consts").glob("*.py") if p.stem != "__init__")


def main():
    repo = os.environ.get("M17_REPO", "/repo")
    ctx = vlib.Ctx(AllConsts, "quick", 0, repo)
    with vlib.CoqLock():
        ok = ctx.step_consts()
        ctx.make_project()
        rc, out = vlib.sh(["timeout", "7000", "make", "-k", "-j16"], cwd=vlib.COQ, timeout=7200)
        print(out[-3000:])
    # a failing proof here is reported by the individual checks; setup itself only fails if nothing could be built
    sys.exit(0 if (vlib.COQ / "Bits.vo").exists() else 1)


if __name__ == "__main__":
    main()
