#!/usr/bin/env python3
"""Validate the checks against mutants (see DESIGN §7).  Not a registered check.

  tools/selftest.py [--baseline] [--only C09] [--dir selftest/mutants|selftest/equivalent|seeded]

For every patch  <dir>/<Cxx>-<name>.diff  (or seeded/<id>/patch.diff with meta.json naming the property):
  copy /repo's HEAD to a scratch directory outside /repo and /verif, apply the patch, optionally build it and run the
  repository's own test suite (must still pass), run ./check <Cxx> with M17_REPO pointing at the copy, and report
  whether a VIOLATION line was printed (expected for mutants/seeded) or not (expected for equivalent rewrites).
The scratch copy and its build output are removed afterwards; finally the check is run once more against /repo so that
coq/gen is regenerated from the real tree.
"""
import argparse
import json
import os
import re
import shutil
import subprocess
import sys
import tempfile
from pathlib import Path

VERIF = Path(__file__).resolve().parent.parent


def sh(cmd, **kw):
    p = subprocess.run(cmd, shell=isinstance(cmd, str), stdout=subprocess.PIPE, stderr=subprocess.STDOUT, text=True, **kw)
    return p.returncode, p.stdout


def collect(d, only):
    d = VERIF / d
    items = []
    if d.name.startswith("seeded") or any((x / "patch.diff").exists() for x in d.iterdir() if x.is_dir()):
        for sub in sorted(d.iterdir()):
            if (sub / "patch.diff").exists() and (sub / "meta.json").exists():
                meta = json.loads((sub / "meta.json").read_text())
                props = meta.get("property")
                props = props if isinstance(props, list) else [props]
                for p in props:
                    if not only or p in only:
                        items.append((p, sub.name, sub / "patch.diff"))
    else:
        for f in sorted(d.glob("C*-*.diff")):
            p = f.name.split("-")[0]
            if not only or p in only:
                items.append((p, f.stem, f))
    return items


def expected_alarms(d, fname="EXPECTED-ALARMS.txt"):
    f = VERIF / d / fname
    if not f.exists():
        return set()
    return {l.split()[0] for l in f.read_text().splitlines() if l.strip() and not l.startswith("#")}


def main():
    ap = argparse.ArgumentParser()
    ap.add_argument("--dir", default="selftest/mutants")
    ap.add_argument("--only", nargs="*")
    ap.add_argument("--baseline", action="store_true", help="also build the copy and run the repository's tests")
    ap.add_argument("--tier", default="quick")
    ap.add_argument("--match", default=None, help="regex the patch name must match (e.g. '-[ef]$')")
    ap.add_argument("--expect", choices=["violation", "silent"], default=None)
    a = ap.parse_args()
    expect = a.expect or ("silent" if "equivalent" in a.dir else "violation")
    rows = []
    touched = set()
    for prop, name, patch in collect(a.dir, a.only):
        if a.match and not re.search(a.match, name):
            continue
        tmp = Path(tempfile.mkdtemp(prefix="m17-selftest-"))
        try:
            sh(f"git -C /repo archive HEAD | tar -x -C {tmp}")
            rc, out = sh(["git", "apply", "--directory", str(tmp), "--unsafe-paths", str(patch)], cwd="/")
            if rc != 0:
                rc, out = sh(["patch", "-p1", "-d", str(tmp), "-i", str(patch)])
            if rc != 0:
                rows.append((prop, name, "PATCH-FAILED", out.strip()[-200:]))
                continue
            base = ""
            if a.baseline:
                rc, out = sh([str(VERIF / "tools" / "baseline.sh"), str(tmp)])
                base = "tests-pass" if rc == 0 else "TESTS-FAIL"
            env = dict(os.environ, M17_REPO=str(tmp), VERIF_TIER=a.tier)
            rc, out = sh([str(VERIF / "check"), prop, "--tier", a.tier], env=env, cwd=VERIF)
            touched.add(prop)
            viol = [l for l in out.splitlines() if l.startswith("VIOLATION")]
            got = "violation" if viol else "silent"
            concrete = bool(viol) and not any("no-failing-input-found" in l for l in viol)
            verdict = "ok" if got == expect else "UNEXPECTED"
            if expect == "silent" and got == "violation" and not concrete and name in expected_alarms(a.dir):
                verdict = "ok(expected-alarm)"
            if expect == "violation" and got == "silent" and name in expected_alarms(a.dir, "EXPECTED-SILENT.txt"):
                verdict = "ok(expected-silent)"
            if expect == "violation" and got == "silent" and a.tier == "quick" and name in expected_alarms(a.dir, "EXPECTED-SILENT-QUICK.txt"):
                verdict = "ok(expected-silent-in-quick-tier)"
            rows.append((prop, name, f"{verdict}:{got}{'(concrete)' if concrete else ''} rc={rc} {base}", (viol[0] if viol else "")[:160]))
            print("#", *rows[-1], flush=True)
        finally:
            shutil.rmtree(tmp, ignore_errors=True)
    for prop in sorted(touched):  # regenerate coq/gen from the real tree
        rc, out = sh([str(VERIF / "check"), prop, "--tier", "quick"], cwd=VERIF)
        rows.append((prop, "(unchanged /repo)", "ok:silent" if rc == 0 else f"UNEXPECTED rc={rc}", ""))
    w = max((len(r[1]) for r in rows), default=10)
    for r in rows:
        print(f"{r[0]:4} {r[1]:{w}}  {r[2]}  {r[3]}")
    sys.exit(1 if any("UNEXPECTED" in r[2] or "FAILED" in r[2] or "TESTS-FAIL" in r[2] for r in rows) else 0)


if __name__ == "__main__":
    main()
