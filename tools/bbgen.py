"""Sample-stream generators for the sanitizer runs of C07 (test inputs only; nothing here is an oracle).

Streams are lists of int16 values at 48 kHz.  M17 basebands are made from the reference encoder
(tools/m17ref.py) and shaped with the transmit filter whose taps are read from apps/m17-mod.cpp
(10 samples per symbol, symbol gain 7168 as in m17-mod), or are taken from the real m17-mod."""
import math
import re
import struct
import sys
from pathlib import Path

sys.path.insert(0, str(Path(__file__).resolve().parent))
import m17ref  # noqa: E402

RATE = 48000


def rrc_taps(repo):
    s = (Path(repo) / "apps" / "m17-mod.cpp").read_text()
    m = re.search(r"rrc_taps\s*=\s*std::array<double,\s*(\d+)>\s*\{([^}]*)\}", s, re.S)
    if not m:
        raise RuntimeError("rrc_taps not found in m17-mod.cpp")
    taps = [float(x) for x in m.group(2).replace("\n", " ").split(",") if x.strip()]
    if len(taps) != int(m.group(1)):
        raise RuntimeError("rrc_taps length mismatch")
    return taps


def clip16(v):
    return -32768 if v < -32768 else 32767 if v > 32767 else int(v)


def shape(symbols, taps, gain=7168.0, invert=False):
    """upsample by 10 (symbol at i*10, zeros between) and filter; polyphase evaluation"""
    n = len(symbols) * 10
    nt = len(taps)
    out = [0] * n
    g = -gain if invert else gain
    for k in range(n):
        acc = 0.0
        # taps index j multiplies input sample k - j; input is non-zero only at multiples of 10
        j = k % 10
        i = k // 10
        while j < nt and i >= 0:
            acc += taps[j] * symbols[i]
            j += 10
            i -= 1
        out[k] = clip16(acc * g)
    return out


def bits_bytes(bits):
    return m17ref.bytes_of_bits(bits)


def tx_bytes_stream(dst, src, can, nframes, rng, eos=True):
    payloads = [rng.bytes(16) for _ in range(nframes)]
    b, lsf = m17ref.bitstream(dst, src, can, payloads)
    if not eos:
        b = b[:-2]
    return b


def tx_bytes_packet(ptype, segments, rng, dst="W1AW", src="N0CALL"):
    """ptype: 1 RAW, 2 ENCAPSULATED, 0/3 reserved; segments: list of (data25, eof, counter)"""
    typ = (ptype & 3) << 1
    lsf = m17ref.make_lsf(dst, src, typ=typ)
    out = bytearray(m17ref.PREAMBLE)
    out += m17ref.SYNC_LSF + bits_bytes(m17ref.frame_lsf(lsf))
    for data, eof, counter in segments:
        out += m17ref.SYNC_PACKET + bits_bytes(m17ref.frame_packet(data, eof, counter))
    out += m17ref.EOT_MARKER * 24
    return bytes(out)


def tx_bytes_bert(nframes):
    out = bytearray(m17ref.PREAMBLE)
    state = 1
    for _ in range(nframes):
        bits, state = m17ref.prbs9(197, state)
        out += m17ref.SYNC_BERT + bits_bytes(m17ref.frame_bert(bits))
    out += m17ref.EOT_MARKER * 24
    return bytes(out)


def baseband(tx_bytes, taps, invert=False, tail=1920):
    syms = m17ref.symbols_of_bytes(tx_bytes) + [0] * (tail // 10)
    return shape(syms, taps, invert=invert)


# ---------------------------------------------------------------- synthetic streams
def noise(n, amp, rng):
    a = int(amp * 32767)
    return [rng.range(-a, a) for _ in range(n)]


def gauss_noise(n, sigma, rng):
    out = []
    s = sigma * 32767
    for _ in range(n // 2 + 1):
        u1 = (rng.below(1 << 30) + 1) / float((1 << 30) + 1)
        u2 = rng.below(1 << 30) / float(1 << 30)
        r = math.sqrt(-2.0 * math.log(u1))
        out.append(clip16(s * r * math.cos(2 * math.pi * u2)))
        out.append(clip16(s * r * math.sin(2 * math.pi * u2)))
    return out[:n]


def constant(n, level):
    return [clip16(level * 32767)] * n


def tone(n, freq, amp, phase=0.0):
    w = 2 * math.pi * freq / RATE
    a = amp * 32767
    return [clip16(a * math.sin(w * i + phase)) for i in range(n)]


def square(n, freq, amp):
    half = RATE / (2.0 * freq)
    a = clip16(amp * 32767)
    return [a if int(i / half) % 2 == 0 else -a for i in range(n)]


def impulses(n, period, amp, width=1):
    a = clip16(amp * 32767)
    return [a if (i % period) < width else 0 for i in range(n)]


def add(a, b):
    n = min(len(a), len(b))
    return [clip16(a[i] + b[i]) for i in range(n)] + (a[n:] if len(a) > n else b[n:])


def corrupt_bursts(samples, rng, nbursts, maxlen, kind="noise"):
    s = list(samples)
    for _ in range(nbursts):
        if len(s) < 10:
            break
        start = rng.below(len(s))
        ln = rng.range(1, maxlen)
        for i in range(start, min(len(s), start + ln)):
            if kind == "noise":
                s[i] = rng.range(-32767, 32767)
            elif kind == "zero":
                s[i] = 0
            elif kind == "sat":
                s[i] = 32767 if rng.chance(1, 2) else -32767
            else:
                s[i] = -s[i]
    return s


def write_raw(path, samples):
    with open(path, "wb") as f:
        f.write(struct.pack("<%dh" % len(samples), *samples))


def read_raw(path):
    b = Path(path).read_bytes()
    return list(struct.unpack("<%dh" % (len(b) // 2), b[:len(b) // 2 * 2]))
