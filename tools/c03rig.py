"""End-to-end rig shared by the C03 and C06 checks.

transmitter : tools/m17ref.py (written from the specification) -> symbol stream of a whole stream-mode transmission
channel     : harness/c03.cpp (closed-form RRC pulse, timing phase, clock error, gain, DC, noise, lead-in histories)
receiver    : the real M17Demodulator<float>, one fresh process per case
trace check : with `trace 1` the harness prints the public discrete members after every sample; ocaml/c03_driver.ml checks each
              observed transition against the extracted step function of coq/ImplDemodCtl.v and each dcd.update() against the
              extracted DataCarrierDetect model.
"""
import math
import os
import subprocess
from concurrent.futures import ThreadPoolExecutor

import m17ref

A0 = 7168.0 * math.sqrt(10.0) / 41067.0       # nominal scale (see harness/c03.cpp); calibrated against the real m17-mod
SYMCH = {3: "A", 1: "B", -1: "C", -3: "D"}
CALL_ALPHABET = "ABCDEFGHIJKLMNOPQRSTUVWXYZ0123456789-/."
FRAME_SAMPLES = 1920


def callsign(r):
    n = r.range(3, 9)
    return "".join(CALL_ALPHABET[r.below(len(CALL_ALPHABET))] for _ in range(n))


def make_tx(r, nframes):
    """a random stream transmission: preamble, LSF, nframes stream frames (last one EOS), EOT marker"""
    dst = callsign(r) if not r.chance(1, 6) else ""
    src = callsign(r)
    can = r.below(16)
    pay = [r.bytes(16) for _ in range(nframes)]
    bs, lsf = m17ref.bitstream(dst, src, can, pay)
    symbols = "".join(SYMCH[x] for x in m17ref.symbols_of_bytes(bs))
    frames = [(((fn & 0x7FFF) | (0x8000 if fn == nframes - 1 else 0)).to_bytes(2, "big") + p).hex() for fn, p in enumerate(pay)]
    return {"dst": dst, "src": src, "can": can, "nframes": nframes, "symbols": symbols, "lsf": lsf.hex(), "frames": frames}


def sigma_for_snr(gain, snr_db):
    """noise std-dev for a given SNR (signal power / noise power, both over the full 48 kHz sampled band)"""
    if snr_db is None:
        return 0.0
    p_sig = (gain * A0) ** 2 * 5.0 / 10.0          # E[a^2] = 5 for equiprobable symbols, unit-energy pulse, T = 10 samples
    return math.sqrt(p_sig / (10.0 ** (snr_db / 10.0)))


def tx_seg(tx, main, tau=0.0, ppm=0.0, gain=1.0, dc=0.0, sigma=0.0, maxn=-1, nsym=None):
    sym = tx["symbols"] if nsym is None else tx["symbols"][:nsym]
    return f"seg tx {1 if main else 0} {tau:.6f} {ppm:.3f} {gain:.6f} {dc:.6f} {sigma:.8f} {maxn} {sym}"


def case_text(seed, trace, segs):
    return f"seed {seed}\ntrace {1 if trace else 0}\n" + "\n".join(segs) + "\n"


def parse_output(out):
    res = {"frames": [], "est": {}, "lock": [], "states": [], "main": [], "end": None, "T": None}
    for line in out.splitlines():
        if not line:
            continue
        c = line[0]
        if c == "F":
            t = line.split()
            res["frames"].append((int(t[1]), t[2], t[3], int(t[4])))
            res["est"][int(t[1])] = (float(t[5]), float(t[6])) if len(t) > 6 else None
        elif c == "L":
            t = line.split()
            res["lock"].append((int(t[1]), int(t[2])))
        elif c == "Q":
            t = line.split()
            res["states"].append((int(t[1]), int(t[2])))
        elif c == "M":
            res["main"].append(int(line.split()[1]))
        elif c == "E":
            res["end"] = int(line.split()[1])
        elif c == "Z":
            t = line.split()
            res["dcd_final"] = {"level": t[1], "finite": t[2] == "1", "triggered": t[3] == "1"}
        elif c == "T":
            d = {}
            head, _, first = line.partition(" first=")
            for kv in head.split()[1:]:
                k, _, v = kv.partition("=")
                d[k] = int(v)
            d["first"] = first
            res["T"] = d
    return res


def run_cases(ctx, exe, driver, cases, jobs=16, timeout=900):
    """cases: list of dicts with 'name', 'text', 'trace'.  Returns list of parsed results (same order)."""
    cdir = ctx.workdir / "cases"
    cdir.mkdir(exist_ok=True)

    def one(c):
        p = cdir / (c["name"] + ".case")
        p.write_text(c["text"])
        try:
            if c["trace"] and driver:
                h = subprocess.Popen([str(exe), "run", str(p)], stdout=subprocess.PIPE)
                d = subprocess.run([str(driver), "ctl"], stdin=h.stdout, stdout=subprocess.PIPE, timeout=timeout, text=True)
                h.stdout.close()
                rc = h.wait()
                out = d.stdout
                if d.returncode != 0:
                    rc = rc or 100 + d.returncode
            else:
                pr = subprocess.run([str(exe), "run", str(p)], stdout=subprocess.PIPE, timeout=timeout, text=True)
                rc, out = pr.returncode, pr.stdout
        except subprocess.TimeoutExpired:
            rc, out = 124, ""
        r = parse_output(out)
        r["rc"] = rc
        r["case_file"] = str(p)
        return r

    with ThreadPoolExecutor(jobs) as ex:
        return list(ex.map(one, cases))


def stream_frames_after(res, start):
    return [(n, h, cost) for (n, t, h, cost) in res["frames"] if t == "STREAM" and n >= start]


def find_steady(got, frames):
    """first run of eight consecutive bit-exact frames: returns (i, j) = position in the delivered list, frame number"""
    idx = {f: k for k, f in enumerate(frames)}
    for i in range(len(got) - 7):
        j = idx.get(got[i])
        if j is None or j + 8 > len(frames):
            continue
        if all(got[i + k] == frames[j + k] for k in range(8)):
            return i, j
    return None


def locked_at(res, n):
    v = 0
    for t, s in res["lock"]:
        if t <= n:
            v = s
    return bool(v)


def oracle_c03(res, tx, start):
    """the property: after the first eight consecutive bit-exact frames, every later frame exactly once, in order, bit-exact,
    through the EOS frame; every LSF reported for this transmission equals the transmitted one.
    Returns (status, key, detail): status in {'ok', 'not-steady', 'violation'}"""
    sf = stream_frames_after(res, start)
    got = [h for _, h, _ in sf]
    frames = tx["frames"]
    detail = {"delivered_stream_frames": len(got), "transmitted": len(frames)}
    # LSF reports (200 samples after the start: nothing of an earlier transmission is still in the matched filter / framer by then
    # unless a decode straddles the boundary, which the CRC guards)
    for n, t, h, cost in res["frames"]:
        if t == "LSF" and n >= start + 200 and h != tx["lsf"]:
            detail.update({"lsf_reported": h, "lsf_transmitted": tx["lsf"], "at_sample": n})
            return "violation", "lsf-differs", detail
    st = find_steady(got, frames)
    if st is None:
        return "not-steady", None, detail
    i, j = st
    detail.update({"steady_from_delivery": i, "steady_from_frame": j, "steady_at_sample": sf[i + 7][0]})
    exp = frames[j:]
    rest = got[i:]
    for k in range(len(exp)):
        if k >= len(rest):
            detail.update({"missing_from_frame": j + k, "delivered_after_steady": len(rest)})
            return "violation", "frame-lost-at-end", detail
        if rest[k] != exp[k]:
            what = "frame-corrupt"
            if rest[k] in exp[:k] or (k > 0 and rest[k] == rest[k - 1]):
                what = "frame-duplicated"
            elif rest[k] in exp[k + 1:]:
                what = "frame-lost"
            detail.update({"frame": j + k, "expected": exp[k], "delivered": rest[k], "at_sample": sf[i + k][0], "cost": sf[i + k][2]})
            return "violation", what, detail
    detail["extra_after_eos"] = len(rest) - len(exp)
    return "ok", None, detail


def oracle_c06(res, tx, start, limit_frames=400):
    """carrier detect asserted and eight consecutive bit-exact frames within `limit_frames` frames of the start"""
    sf = stream_frames_after(res, start)
    got = [h for _, h, _ in sf]
    st = find_steady(got, tx["frames"])
    detail = {"delivered_stream_frames": len(got), "transmitted": len(tx["frames"]),
              "dcd_events_after_start": [(t - start, s) for t, s in res["lock"] if t >= start][:8],
              "dcd_at_start": locked_at(res, start)}
    if st is None:
        ever = any(s == 1 and t >= start for t, s in res["lock"]) or locked_at(res, start)
        detail["dcd_ever_asserted_during_tx"] = ever
        return "not-acquired", detail
    i, j = st
    n8 = sf[i + 7][0]
    detail.update({"steady_from_frame": j, "steady_reached_at_frame": j + 7, "steady_at_sample": n8, "locked_then": locked_at(res, n8)})
    if j + 8 > limit_frames or not locked_at(res, n8):
        return "late", detail
    return "ok", detail
