#!/usr/bin/env python3
"""Single entry point:  tools/check.py C09 --tier quick|thorough [--replay file]

exit 0: the property held on everything explored (KNOWN-FINDING lines may be printed);
exit 1: a line `VIOLATION property=<id> replay=<path>` was printed.
"""
import argparse
import importlib
import os
import sys
import traceback
from pathlib import Path

sys.path.insert(0, str(Path(__file__).resolve().parent))
import vlib  # noqa: E402


def main():
    ap = argparse.ArgumentParser()
    ap.add_argument("property")
    ap.add_argument("--tier", default=os.environ.get("VERIF_TIER", "quick"), choices=["quick", "thorough"])
    ap.add_argument("--replay", default=None)
    ap.add_argument("--repo", default=os.environ.get("M17_REPO", "/repo"))
    a = ap.parse_args()
    seed = int(os.environ.get("VERIF_SEED", "20260930") or 0)
    mod = importlib.import_module("props." + a.property.lower())
    ctx = vlib.Ctx(mod, a.tier, seed, a.repo, a.replay)
    try:
        with vlib.CoqLock():
            ctx.step_consts()
            if not ctx.step_coq():
                ctx.second_chance()
            if hasattr(mod, "build_model"):
                mod.build_model(ctx)
        mod.run(ctx)
    except Exception as e:  # a crash of the machinery is a broken check, never a silent pass
        traceback.print_exc()
        ctx.broken.append(("machinery", type(e).__name__, str(e)[:500]))
    rc = ctx.finish()
    print(f"[{ctx.pid}] tier={a.tier} seed={seed} evaluations={ctx.evaluations} theorems={len(ctx.discharged)}/{len(ctx.theorems)} "
          f"broken={len(ctx.broken)} violations={len(ctx.violations)} exit={rc}", flush=True)
    sys.exit(rc)


if __name__ == "__main__":
    main()
