"""Frame and history generators for the frame-decoder properties (C01, C05, C08).

Frames are built with the spec-derived reference encoder tools/m17ref.py; every random choice comes
from the SplitMix64 stream handed in.  A frame is (sync, soft[368], cbret, meta) where meta records what
was put in (kind, payload, LSF, fragment number, error positions) for the property oracles.
"""
import m17ref as R

SYNCS = "LSPB"


def rand_call(r, n=None):
    n = n or r.range(1, 9)
    return "".join(R.ALPHABET[r.range(1, 39)] for _ in range(n))


def make_lsf(r, kind="voice"):
    dst = rand_call(r) if r.chance(4, 5) else ""
    src = rand_call(r)
    can = r.below(16)
    if kind == "voice":
        typ = 1 | (2 << 1) | (can << 7)
    elif kind == "voicedata":
        typ = 1 | (3 << 1) | (can << 7)
    elif kind == "data":          # stream, data only: decoder stays in LSF mode
        typ = 1 | (1 << 1) | (can << 7)
    elif kind == "stream0":       # stream, reserved data type 0
        typ = 1 | (can << 7)
    elif kind == "pkt_raw":
        typ = 0 | (1 << 1) | (can << 7)
    elif kind == "pkt_enc":
        typ = 0 | (2 << 1) | (can << 7)
    elif kind == "pkt_res0":
        typ = 0 | (can << 7)
    elif kind == "pkt_res3":
        typ = 0 | (3 << 1) | (can << 7)
    else:
        typ = r.below(65536)
    meta = r.bytes(14)
    return R.make_lsf(dst, src, typ=typ, meta=meta)


def mags(r, style):
    if style == "full":
        return [7] * 368
    if style == "rand":
        return [r.range(1, 7) for _ in range(368)]
    if style == "one":
        return [1] * 368
    raise ValueError(style)


def flip(bits, positions):
    b = list(bits)
    for p in positions:
        b[p] ^= 1
    return b


def golay_error_positions(r, nerr_per_word, force_parity=False):
    """error positions within the 96 LICH bits: nerr_per_word[k] errors in word k (bit 23 of a word = overall parity)"""
    pos = []
    for k, ne in enumerate(nerr_per_word):
        choices = list(range(24))
        sel = []
        if force_parity and ne > 0:
            sel.append(23)
            choices.remove(23)
        while len(sel) < ne:
            c = choices[r.below(len(choices))]
            choices.remove(c)
            sel.append(c)
        pos += [24 * k + c for c in sel]
    return pos


def channel_positions(lich_pos):
    """map positions in the pre-interleave 368-bit frame to positions after interleaving"""
    return [(45 * i + 92 * i * i) % 368 for i in lich_pos]


class Gen:
    def __init__(self, rng):
        self.r = rng

    # ---- single frames -------------------------------------------------------------------------------------------
    def lsf_frame(self, lsf, style="full", nflip=0):
        bits = R.frame_lsf(lsf)
        pos = sorted(set(self.r.below(368) for _ in range(nflip)))
        bits = flip(bits, pos)
        return ("L", R.soft(bits, mags(self.r, style)), 1, {"kind": "lsf", "lsf": lsf.hex(), "flips": pos})

    def stream_frame(self, lsf, n, fn, payload, eos=False, style="full", lich_err=(0, 0, 0, 0), parity=False, nflip=0, sync="S", chunk5=None):
        pre = R.lich_chunk_bits(lsf, n, chunk5) + R.puncture(R.conv_encode(R.bits_of_bytes(
            ((fn & 0x7FFF) | (0x8000 if eos else 0)).to_bytes(2, "big") + bytes(payload))), R.P2, 272)
        epos = golay_error_positions(self.r, lich_err, parity)
        pre = flip(pre, epos)
        bits = R.randomize(R.interleave(pre))
        pos = sorted(set(self.r.below(368) for _ in range(nflip)))
        bits = flip(bits, pos)
        return (sync, R.soft(bits, mags(self.r, style)), 1,
                {"kind": "stream", "lsf": lsf.hex(), "n": n, "chunk": (bytes(chunk5) if chunk5 is not None else lsf[5 * n:5 * n + 5]).hex(), "fn": fn, "payload": bytes(payload).hex(), "eos": eos,
                 "lich_err": list(lich_err), "lich_err_pos": epos, "flips": pos})

    def packet_frame(self, data25, eof, counter, cbret=1, style="full", nflip=0, sync="P"):
        bits = R.frame_packet(data25, eof, counter)
        pos = sorted(set(self.r.below(368) for _ in range(nflip)))
        bits = flip(bits, pos)
        return (sync, R.soft(bits, mags(self.r, style)), cbret,
                {"kind": "packet", "data": bytes(data25).hex(), "eof": eof, "counter": counter, "flips": pos})

    def bert_frame(self, bits197, style="full", nflip=0, sync="B"):
        bits = R.frame_bert(bits197)
        pos = sorted(set(self.r.below(368) for _ in range(nflip)))
        bits = flip(bits, pos)
        return (sync, R.soft(bits, mags(self.r, style)), 1, {"kind": "bert", "bits": "".join(map(str, bits197)), "flips": pos})

    def random_frame(self, sync=None, style=None):
        r = self.r
        style = style or r.choice(["int8", "pm7", "zeros", "sat"])
        if style == "int8":
            v = [b - 256 if b > 127 else b for b in r.bytes(368)]
        elif style == "pm7":
            v = [r.range(-7, 7) for _ in range(368)]
        elif style == "zeros":
            v = [0] * 368
        else:
            v = [r.choice([-128, 127, -127]) for _ in range(368)]
        return (sync or r.choice(list(SYNCS)), v, r.below(2), {"kind": "random", "style": style})


def frame_cmd(fr):
    sync, soft, cbret, _ = fr
    return f"frame {sync} {R.soft_hex(soft)} {cbret}"


def parse_result(line):
    """res=OK cost=0 state=STREAM cbs=1 LSF:hex:0 ..."""
    toks = line.split()
    d = dict(t.split("=", 1) for t in toks[:4])
    cbs = []
    for t in toks[4:]:
        ty, hx, cost = t.split(":")
        cbs.append((ty, hx, int(cost)))
    return {"res": d.get("res"), "cost": int(d.get("cost", "0")), "state": d.get("state"), "cbs": cbs}
