#!/bin/sh
# Runs the repository's own test suite with the verification guard OFF (no -DM17CXX_VERIF anywhere).
# usage: tools/baseline.sh [repo-dir]   (default /repo; a scratch copy gets its own _build)
R="${1:-/repo}"
if [ ! -f "$R/_build/build.ninja" ]; then
  cmake -G Ninja -S "$R" -B "$R/_build" -DCMAKE_BUILD_TYPE=Release >/dev/null || exit 2
fi
cmake --build "$R/_build" -- -k 0 >/dev/null 2>&1   # the five Blaze-dependent targets do not build in this sandbox
ctest --test-dir "$R/_build" -j8 --timeout 900 2>&1 | tail -15
N=$(ctest --test-dir "$R/_build" -j8 --timeout 900 2>&1 | grep -c "Passed")
echo "passed=$N"
[ "$N" -ge 67 ]
