#!/usr/bin/env python3
"""Common machinery for the per-property checks (see DESIGN.md §2.3).

A property module tools/props/cNN.py provides:
    PROPERTY   = "C09"
    CONSTS     = ["crc", ...]              # tools/consts/<name>.py generators it depends on
    COQ_TARGETS= ["Properties_C09.vo", "Extract_C09.vo"]
    PROPERTIES_FILE = "Properties_C09.v"    # file holding only the property theorems
    LEVEL      = "proof" | "other"
    def run(ctx): ...                       # correspondence + oracle, using ctx helpers

The check driver (tools/check.py) does, in order: regenerate constants from the
repository, build the Coq targets (full .vo), re-check the property file and read
its Print Assumptions output, scan for forbidden commands, then hands over to the
module's run(), and finally decides the outcome and writes evidence.
"""
import fcntl
import hashlib
import importlib
import json
import os
import re
import shutil
import subprocess
import sys
import time
from pathlib import Path

VERIF = Path(__file__).resolve().parent.parent
COQ = VERIF / "coq"
GEN = COQ / "gen"
REF = VERIF / "coqref"   # committed translation of the pinned tree (tools/refresh_ref.py); outside the -Q root on purpose
BUILD = VERIF / "build"
KNOWN = VERIF / "known_findings.txt"

FORBIDDEN = re.compile(
    r"\b(Admitted|admit|Axiom|Axioms|Parameter|Parameters|Conjecture|Conjectures|"
    r"Unset\s+Guard|Unset\s+Positivity|Unset\s+Universe|bypass_check|type-in-type|"
    r"impredicative-set|Admit\s+Obligations|give_up)\b")

# Axioms of the standard library / Flocq's dependencies that a theorem may rest on
# (named in DESIGN.md §6).  Anything else reported by Print Assumptions breaks the check.
ALLOWED_AXIOMS = {
    "ClassicalDedekindReals.sig_forall_dec",
    "ClassicalDedekindReals.sig_not_dec",
    "FunctionalExtensionality.functional_extensionality_dep",
    "Classical_Prop.classic",
    "Eqdep.Eq_rect_eq.eq_rect_eq",
    "ProofIrrelevance.proof_irrelevance",
    "JMeq.JMeq_eq",
}


class AnchorError(Exception):
    """A source anchor the translator relies on no longer matches."""


class SplitMix64:
    """The single PRNG every random choice derives from (replayable from VERIF_SEED)."""

    def __init__(self, seed):
        self.s = seed & 0xFFFFFFFFFFFFFFFF

    def next(self):
        self.s = (self.s + 0x9E3779B97F4A7C15) & 0xFFFFFFFFFFFFFFFF
        z = self.s
        z = ((z ^ (z >> 30)) * 0xBF58476D1CE4E5B9) & 0xFFFFFFFFFFFFFFFF
        z = ((z ^ (z >> 27)) * 0x94D049BB133111EB) & 0xFFFFFFFFFFFFFFFF
        return z ^ (z >> 31)

    def below(self, n):
        return self.next() % n if n > 0 else 0

    def range(self, lo, hi):
        """inclusive"""
        return lo + self.below(hi - lo + 1)

    def bytes(self, n):
        out = bytearray()
        while len(out) < n:
            out += self.next().to_bytes(8, "little")
        return bytes(out[:n])

    def choice(self, xs):
        return xs[self.below(len(xs))]

    def chance(self, num, den):
        return self.below(den) < num

    def shuffle(self, xs):
        xs = list(xs)
        for i in range(len(xs) - 1, 0, -1):
            j = self.below(i + 1)
            xs[i], xs[j] = xs[j], xs[i]
        return xs

    def fork(self, tag):
        h = hashlib.sha256(f"{self.s}:{tag}".encode()).digest()
        return SplitMix64(int.from_bytes(h[:8], "little"))


def sh(cmd, cwd=None, timeout=None, env=None, input=None):
    """Run a command, return (rc, stdout+stderr).  rc 124 on timeout."""
    try:
        p = subprocess.run(cmd, cwd=cwd, timeout=timeout, env=env, input=input,
                           stdout=subprocess.PIPE, stderr=subprocess.STDOUT,
                           shell=isinstance(cmd, str), text=True, errors="replace")
        return p.returncode, p.stdout
    except subprocess.TimeoutExpired as e:
        out = e.stdout or ""
        if isinstance(out, bytes):
            out = out.decode(errors="replace")
        return 124, out + "\n[timeout]"


class Ctx:
    def __init__(self, mod, tier, seed, repo, replay=None):
        self.mod = mod
        self.pid = mod.PROPERTY
        self.tier = tier
        self.seed = seed
        self.repo = Path(repo)
        self.replay_in = replay
        self.rng = SplitMix64(seed)
        self.t0 = time.time()
        self.broken = []          # [(kind, name, detail)] proof / correspondence / translator breaks
        self.degraded = []        # [(translator, detail)] source shape not recognised: reference constants used, tie = correspondence only
        self.violations = []      # [(key, text, replay_dict)] concrete failures on the real code
        self.notes = []
        self.coverage = {}
        self.samples = []
        self.assumptions_seen = {}
        self.theorems = []
        self.discharged = []
        self.lemma_count = 0
        self.trusted = []
        self.workdir = BUILD / self.pid
        self.workdir.mkdir(parents=True, exist_ok=True)
        self.log_lines = []
        self.evaluations = 0
        self.distinct = set()
        self.dist = {}

    # ---------------------------------------------------------------- logging
    def log(self, *a):
        s = " ".join(str(x) for x in a)
        self.log_lines.append(s)
        print(f"[{self.pid}] {s}", flush=True)

    # ---------------------------------------------------------------- step 1: constants
    def step_consts(self):
        GEN.mkdir(parents=True, exist_ok=True)
        ok = True
        for name in getattr(self.mod, "CONSTS", []):
            gen = importlib.import_module(f"consts.{name}")
            target = GEN / f"Consts{name.capitalize()}.v"
            try:
                text = gen.generate(self.repo)
            except AnchorError as e:
                ok = False
                ref = REF / target.name
                if ref.exists() and not os.environ.get("VERIF_STRICT_TRANSLATOR"):
                    # The source no longer has the shape this translator reads.  That alone says nothing about behaviour:
                    # fall back to the reference constants (the committed translation of the pinned tree), so that the theorems
                    # are checked on them, and let the second tie - the correspondence run of this check on the current code -
                    # decide.  Recorded in the evidence; see DESIGN 12.7.
                    self.degraded.append((f"consts.{name}", str(e)))
                    self.log(f"translator could not read the source in consts.{name}: {e}; using reference constants (tie: correspondence only)")
                    text = ref.read_text()
                    if not target.exists() or target.read_text() != text:
                        target.write_text(text)
                    continue
                self.broken.append(("translator", f"consts.{name}", str(e)))
                self.log(f"translator anchor failed in consts.{name}: {e}")
                continue
            header = ("(* GENERATED by tools/consts/%s.py from the repository's source on every run."
                      "  Do not edit. *)\n" % name)
            text = header + text
            if not target.exists() or target.read_text() != text:
                target.write_text(text)
                self.log(f"constants regenerated: {target.name}")
        return ok

    def second_chance(self):
        """A proof obligation failed and some translator regenerated constants that differ from the reference translation of the
        pinned tree.  Either the source really changed (then the current code no longer behaves like the reference model and the
        correspondence run will show it) or the translator misread a rewritten source.  Re-check the theorems on the reference
        constants and let the correspondence run decide, exactly as for an unreadable source (DESIGN 12.7)."""
        if os.environ.get("VERIF_STRICT_TRANSLATOR"):
            return False
        changed = []
        for name in getattr(self.mod, "CONSTS", []):
            target = GEN / f"Consts{name.capitalize()}.v"
            ref = REF / target.name
            if ref.exists() and target.exists() and target.read_text() != ref.read_text():
                changed.append((name, target, ref))
        proof_breaks = [b for b in self.broken if b[0] == "proof"]
        if not changed or not proof_breaks:
            return False
        regenerated = {name: target.read_text() for name, target, _ in changed}
        for name, target, ref in changed:
            target.write_text(ref.read_text())
        saved = list(self.broken)
        self.broken = [b for b in saved if b[0] != "proof"]
        ok = self.step_coq()
        if ok:
            what = ", ".join(b[1] for b in proof_breaks)[:300]
            for name, _, _ in changed:
                self.degraded.append((f"consts.{name}", f"the regenerated constants differ from the reference translation and {what} no longer "
                                      f"proved on them; theorems re-checked on the reference constants"))
            self.log("proofs failed on the regenerated constants (" + what + ") but hold on the reference constants: the correspondence run decides")
            return True
        # the theorems do not hold on the reference constants either: not a translator matter; report the first failure
        for name, target, _ in changed:
            target.write_text(regenerated[name])
        self.broken = saved
        return False

    # ---------------------------------------------------------------- step 2: Coq
    def make_project(self):
        vs = sorted(p.name for p in COQ.glob("*.v")) + sorted("gen/" + p.name for p in GEN.glob("*.v"))
        text = "-Q . M17\n-arg -w -arg -notation-overridden,-deprecated,-ambiguous-paths\n" + "\n".join(vs) + "\n"
        proj = COQ / "_CoqProject"
        if not proj.exists() or proj.read_text() != text or not (COQ / "Makefile").exists():
            proj.write_text(text)
            rc, out = sh(["coq_makefile", "-f", "_CoqProject", "-o", "Makefile"], cwd=COQ)
            if rc != 0:
                raise RuntimeError("coq_makefile failed: " + out)

    def step_coq(self, jobs=16):
        """make -k the targets; then re-run coqc on the property file to read Print Assumptions."""
        targets = list(getattr(self.mod, "COQ_TARGETS", []))
        self.make_project()
        tmo = 3000 if self.tier == "thorough" else 1500
        rc, out = sh(["timeout", str(tmo), "make", "-k", f"-j{jobs}", "TIMED=", *targets], cwd=COQ, timeout=tmo + 60)
        (self.workdir / "coq_make.log").write_text(out)
        failed_files = []
        if rc != 0:
            for m in re.finditer(r'File "(?:\./)?([^"]+)", line (\d+), characters[^\n]*:\n(Error[^\n]*(?:\n(?!File |make|COQC|COQDEP)[^\n]*){0,8})', out):
                fn, line, msg = m.group(1), int(m.group(2)), m.group(3)
                name = enclosing_statement(COQ / fn, line)
                failed_files.append(fn)
                self.broken.append(("proof", f"{fn}:{name}", f"line {line}: " + " ".join(msg.split())[:400]))
                self.log(f"Coq obligation failed: {fn} {name} (line {line})")
            if not failed_files:
                self.broken.append(("proof", "coq-build", out[-800:]))
                self.log("Coq build failed:\n" + out[-1500:])
        # the property theorems
        pf = getattr(self.mod, "PROPERTIES_FILE", None)
        if pf:
            src = (COQ / pf).read_text()
            self.theorems = re.findall(r"^\s*(?:Theorem|Corollary)\s+([A-Za-z0-9_']+)", src, re.M)
            vo = COQ / pf.replace(".v", ".vo")
            if vo.exists() and not any(b[0] == "proof" for b in self.broken):
                rc2, out2 = sh(["timeout", "600", "coqc", "-Q", ".", "M17", "-w", "-notation-overridden,-deprecated", "-o",
                                str(self.workdir / pf.replace(".v", ".vo")), pf], cwd=COQ, timeout=660)
                (self.workdir / "coq_props.log").write_text(out2)
                if rc2 != 0:
                    self.broken.append(("proof", pf, out2[-600:]))
                    self.log("property file failed to re-check:\n" + out2[-1200:])
                else:
                    self.parse_assumptions(out2)
                    self.discharged = list(self.theorems)
            else:
                if not vo.exists():
                    self.log(f"{pf} did not build")
                # theorems whose supporting file built are not counted: nothing is discharged
                self.discharged = []
        # lemma count (supporting obligations) from the files this property depends on
        self.lemma_count = 0
        for dep in self.coq_deps():
            try:
                s = (COQ / dep).read_text()
            except OSError:
                continue
            self.lemma_count += len(re.findall(r"^\s*(?:Lemma|Theorem|Corollary|Fact|Remark|Proposition|Example)\s", s, re.M))
        self.scan_forbidden()
        return not any(b[0] == "proof" for b in self.broken)

    def coq_deps(self):
        """transitive .v dependencies (within coq/) of the property file"""
        pf = getattr(self.mod, "PROPERTIES_FILE", None)
        if not pf:
            return []
        seen, todo = [], [pf]
        while todo:
            f = todo.pop()
            if f in seen or not (COQ / f).exists():
                continue
            seen.append(f)
            s = (COQ / f).read_text()
            for m in re.finditer(r"From\s+M17\s+Require\s+(?:Import|Export)?\s*([^.]+)\.", s):
                for name in m.group(1).split():
                    cand = name.split(".")[-1] + ".v"
                    if (COQ / cand).exists():
                        todo.append(cand)
                    elif (GEN / cand).exists():
                        pass
            for m in re.finditer(r"Require\s+(?:Import|Export)\s+M17\.([A-Za-z0-9_.]+)", s):
                cand = m.group(1).split(".")[-1] + ".v"
                if (COQ / cand).exists():
                    todo.append(cand)
        return seen

    def parse_assumptions(self, out):
        # coqc prints, per `Print Assumptions t.`:  "Closed under the global context"  or "Axioms:\n name : type ..."
        blocks = re.split(r"(?=^Closed under the global context|^Axioms:)", out, flags=re.M)
        results = []
        for b in blocks:
            if b.startswith("Closed under"):
                results.append([])
            elif b.startswith("Axioms:"):
                names = re.findall(r"^([A-Za-z_][A-Za-z0-9_.']*)\s*:", b[len("Axioms:"):], re.M)
                results.append(names)
        src = (COQ / self.mod.PROPERTIES_FILE).read_text()
        printed = re.findall(r"Print Assumptions\s+([A-Za-z0-9_']+)", src)
        if len(printed) != len(results):
            self.broken.append(("proof", "print-assumptions", f"{len(printed)} Print Assumptions commands but {len(results)} results"))
            return
        missing = [t for t in self.theorems if t not in printed]
        if missing:
            self.broken.append(("proof", "print-assumptions", "no Print Assumptions for " + ",".join(missing)))
        for t, ax in zip(printed, results):
            self.assumptions_seen[t] = ax
            bad = [a for a in ax if a not in ALLOWED_AXIOMS]
            if bad:
                self.broken.append(("proof", t, "depends on undeclared-in-trusted-base axioms: " + ", ".join(bad)))

    def scan_forbidden(self):
        hits = []
        for dep in self.coq_deps():
            s = strip_coq_comments((COQ / dep).read_text())
            for m in FORBIDDEN.finditer(s):
                hits.append(f"{dep}: {m.group(0)}")
            if re.search(r"^\s*(Variable|Variables|Hypothesis|Hypotheses|Context)\b", s, re.M):
                # allowed only inside a Section
                depth = 0
                for line in s.splitlines():
                    if re.match(r"\s*Section\b", line):
                        depth += 1
                    elif re.match(r"\s*End\b", line) and depth > 0:
                        depth -= 1
                    elif re.match(r"\s*(Variable|Variables|Hypothesis|Hypotheses)\b", line) and depth == 0:
                        hits.append(f"{dep}: top-level {line.strip()[:40]}")
        if hits:
            self.broken.append(("proof", "forbidden-command", "; ".join(hits[:10])))
            self.log("forbidden commands: " + "; ".join(hits[:10]))

    # ---------------------------------------------------------------- builders
    def build_ocaml(self, name, sources, timeout=600):
        """sources: list of paths (model .ml/.mli extracted into coq/, driver in ocaml/). Returns exe path or None."""
        exe = self.workdir / name
        srcs = []
        for s in sources:
            p = Path(s)
            if not p.exists():
                self.broken.append(("correspondence", f"extraction:{p.name}", "extracted model missing (Extract file did not build)"))
                return None
            dst = self.workdir / p.name
            text = p.read_text()
            text = re.sub(r"\(\*#include\s+(\S+)\s*\*\)", lambda m: (VERIF / "ocaml" / m.group(1)).read_text(), text)
            dst.write_text(text)
            srcs.append(dst.name)
        rc, out = sh(["ocamlfind", "ocamlopt", "-w", "-a", "-o", exe.name, *srcs], cwd=self.workdir, timeout=timeout)
        if rc != 0:
            self.broken.append(("correspondence", f"ocaml-build:{name}", out[-800:]))
            self.log("OCaml build failed:\n" + out[-1500:])
            return None
        return exe

    def cxx_flags(self, sanitize=False, hooks=False, extra=()):
        flags = ["-std=c++20", "-O1", "-DNDEBUG", f"-I{self.repo}/include/m17cxx", f"-I{self.repo}/include",
                 f"-I{VERIF}/harness/shim", f"-I{VERIF}/harness", "-pthread"]
        if hooks:
            flags.append("-DM17CXX_VERIF")
        if sanitize:
            flags += ["-g", "-fsanitize=address,undefined", "-fno-sanitize-recover=all", "-D_GLIBCXX_ASSERTIONS"]
        return flags + list(extra)

    def build_cpp(self, name, source, sanitize=False, hooks=False, extra=(), libs=(), compiler="g++", timeout=900):
        """Compile harness/<source> against the repository's *current* headers."""
        exe = self.workdir / name
        src = VERIF / "harness" / source
        cmd = [compiler, *self.cxx_flags(sanitize, hooks, extra), str(src), "-o", str(exe), *libs]
        rc, out = sh(cmd, timeout=timeout)
        (self.workdir / f"{name}.build.log").write_text(out)
        if rc != 0:
            # the repository no longer compiles against the harness: the tie cannot be checked
            self.broken.append(("correspondence", f"harness-build:{name}", out[-1200:]))
            self.log(f"C++ harness {name} failed to build:\n" + out[-2000:])
            return None
        return exe

    def run_exe(self, exe, args=(), input_text=None, timeout=600, env=None):
        e = dict(os.environ)
        e.setdefault("ASAN_OPTIONS", "detect_leaks=0")
        if env:
            e.update(env)
        rc, out = sh([str(exe), *map(str, args)], input=input_text, timeout=timeout, env=e)
        return rc, out

    # ---------------------------------------------------------------- recording
    def count(self, kind, n=1):
        self.dist[kind] = self.dist.get(kind, 0) + n

    def case(self, key, nontrivial=True):
        self.evaluations += 1
        if nontrivial:
            self.distinct.add(key if isinstance(key, (str, int)) else hashlib.md5(repr(key).encode()).hexdigest())

    def sample(self, obj, limit=6):
        if len(self.samples) < limit:
            self.samples.append(obj)

    def violation(self, key, text, replay):
        """A concrete input on which the REAL code breaks the property."""
        self.violations.append((key, text, replay))
        if os.environ.get("VERIF_DEBUG_VIOLATIONS"):
            self.log(f"violation {key}: {json.dumps(replay, default=str)[:600]}")

    def tie_broken(self, name, detail):
        """Model and implementation disagree (or the translator cannot read the source)."""
        self.broken.append(("correspondence", name, detail))
        self.log(f"correspondence broken: {name}: {detail[:300]}")

    def diff_lines(self, name, cases, impl_out, model_out, max_report=5):
        """Line-by-line comparison of canonical outputs; returns indices that differ."""
        a = impl_out.strip("\n").split("\n") if impl_out.strip() else []
        b = model_out.strip("\n").split("\n") if model_out.strip() else []
        bad = []
        if len(a) != len(b):
            self.tie_broken(name, f"implementation printed {len(a)} lines, model {len(b)} lines; impl tail: {a[-1:]}, model tail: {b[-1:]}")
            n = min(len(a), len(b))
        else:
            n = len(a)
        for i in range(n):
            if a[i] != b[i]:
                bad.append(i)
        if bad:
            i = bad[0]
            c = cases[i] if i < len(cases) else "?"
            self.tie_broken(name, f"{len(bad)} of {n} cases differ; first: case#{i} input={str(c)[:200]} impl={a[i][:200]} model={b[i][:200]}")
        return bad

    # ---------------------------------------------------------------- outcome
    def known_findings(self):
        out = []
        if KNOWN.exists():
            for line in KNOWN.read_text().splitlines():
                m = re.match(r"finding:\s+property=(\S+)\s+key=(\S+)\s+(.*)", line)
                if m and m.group(1) == self.pid:
                    out.append((m.group(2), m.group(3)))
        return out

    def finish(self):
        level = getattr(self.mod, "LEVEL", "proof")
        known = self.known_findings()
        known_keys = {k for k, _ in known}
        unlisted = [(k, t, r) for (k, t, r) in self.violations if k not in known_keys]
        listed = [(k, t, r) for (k, t, r) in self.violations if k in known_keys]
        rdir = VERIF / "replays"
        rdir.mkdir(exist_ok=True)
        exit_code = 0
        printed = set()
        for k, t, r in listed:
            if k not in printed:
                printed.add(k)
                print(f"KNOWN-FINDING: property={self.pid} key={k} {t}", flush=True)
        # a listed finding that did not reproduce is still announced (the file is the record)
        for k, t in known:
            if k not in printed:
                print(f"KNOWN-FINDING: property={self.pid} key={k} {t} (not re-observed in this run)", flush=True)
        nviol = 0
        if unlisted:
            seen = set()
            for k, t, r in unlisted:
                if k in seen:
                    continue
                seen.add(k)
                path = rdir / f"{self.pid}-{self.seed}-{len(seen)}.json"
                path.write_text(json.dumps({"property": self.pid, "seed": self.seed, "tier": self.tier, "key": k,
                                            "what": t, "replay": r,
                                            "broken": [list(b) for b in self.broken],
                                            "translator_unreadable": [list(d) for d in self.degraded]}, indent=1, default=str))
                print(f"VIOLATION property={self.pid} replay={path}", flush=True)
                nviol += 1
                if len(seen) >= 5:
                    break
            exit_code = 1
        elif self.broken:
            path = rdir / f"{self.pid}-{self.seed}-broken.json"
            path.write_text(json.dumps({"property": self.pid, "seed": self.seed, "tier": self.tier,
                                        "no_longer_checks": [{"kind": b[0], "name": b[1], "detail": b[2]} for b in self.broken],
                                        "translator_unreadable": [list(d) for d in self.degraded],
                                        "note": "no concrete failing input was found by the search; the property is no longer shown to hold"},
                                       indent=1, default=str))
            names = ",".join(sorted({b[1] for b in self.broken}))[:200]
            print(f"VIOLATION property={self.pid} replay={path} broken={names} no-failing-input-found", flush=True)
            nviol = 1
            exit_code = 1
        if self.degraded:
            names = ", ".join(n for n, _ in self.degraded)
            if exit_code == 0:
                print(f"[{self.pid}] NOTE translator could not read the current source ({names}); theorems checked on the reference constants, "
                      f"tie decided by the correspondence run: model and implementation agree, no failing input", flush=True)
            self.notes.append({"tie": "correspondence-only", "translators_that_could_not_read_the_source": [list(d) for d in self.degraded]})
        self.write_evidence(level, nviol)
        return exit_code

    def write_evidence(self, level, nviol):
        pf = getattr(self.mod, "PROPERTIES_FILE", None)
        cov = dict(self.coverage)
        obligations = len(self.theorems)
        discharged = len(self.discharged)
        cov.update({
            "obligations": obligations,
            "discharged": discharged,
            "theorems": self.theorems,
            "supporting_lemmas_in_dependency_cone": self.lemma_count,
            "print_assumptions": {t: (ax if ax else "Closed under the global context") for t, ax in self.assumptions_seen.items()},
            "checker_cmd": f"cd coq && make -k {' '.join(getattr(self.mod, 'COQ_TARGETS', []))} && coqc -Q . M17 {pf}  (Coq 8.16.1, full .vo build)",
            "trusted_base": [
                "Coq 8.16.1 kernel incl. vm_compute (no native_compute)",
                "axioms: " + (", ".join(sorted({a for ax in self.assumptions_seen.values() for a in ax})) or "none (all property theorems closed under the global context)"),
                "tools/consts/*.py translator (regex extraction of literals/template arguments)",
                "hand-written Impl*.v mirrors of the C++, tied by the differential run of this check",
                "extraction: ExtrOcamlBasic only; ocamlfind ocamlopt 4.13.1; ocaml/*_driver.ml",
                "harness/*.cpp, g++ 12.2, tools/*.py",
            ] + list(self.trusted) + list(getattr(self.mod, "TRUSTED", [])),
            "evaluations": max(self.evaluations, 0),
            "distinct_nontrivial": len(self.distinct),
            "rule": getattr(self.mod, "RULE", ""),
            "samples": self.samples or ["(no case was run)"],
            "input_distribution": self.dist,
            "broken": [{"kind": b[0], "name": b[1], "detail": b[2][:300]} for b in self.broken],
            "explanation": getattr(self.mod, "EXPLANATION", ""),
            "notes": self.notes,
        })
        ev = {
            "property_id": self.pid,
            "tier": self.tier,
            "seed": self.seed,
            "level": level,
            "coverage": cov,
            "assumptions": list(getattr(self.mod, "ASSUMPTIONS", [])),
            "wall_s": round(time.time() - self.t0, 2),
            "violations": nviol,
        }
        (VERIF / "evidence").mkdir(exist_ok=True)
        (VERIF / "evidence" / f"{self.pid}.json").write_text(json.dumps(ev, indent=1, default=str))


def strip_coq_comments(s):
    out, depth, i = [], 0, 0
    while i < len(s):
        if s.startswith("(*", i):
            depth += 1
            i += 2
        elif s.startswith("*)", i) and depth > 0:
            depth -= 1
            i += 2
        else:
            if depth == 0:
                out.append(s[i])
            elif s[i] == "\n":
                out.append("\n")
            i += 1
    return "".join(out)


def enclosing_statement(path, line):
    try:
        lines = path.read_text().splitlines()
    except OSError:
        return "?"
    for i in range(min(line, len(lines)) - 1, -1, -1):
        m = re.match(r"\s*(?:Local\s+|Global\s+)?(?:Lemma|Theorem|Corollary|Fact|Remark|Example|Definition|Fixpoint|Proposition|Instance)\s+([A-Za-z0-9_']+)", lines[i])
        if m:
            return m.group(1)
    return "?"


class CoqLock:
    def __enter__(self):
        BUILD.mkdir(exist_ok=True)
        self.f = open(BUILD / ".lock", "w")
        fcntl.flock(self.f, fcntl.LOCK_EX)
        return self

    def __exit__(self, *a):
        fcntl.flock(self.f, fcntl.LOCK_UN)
        self.f.close()


# ---------------------------------------------------------------------------- source helpers for translators
def read(repo, rel):
    p = Path(repo) / rel
    if not p.exists():
        raise AnchorError(f"{rel} not found")
    return p.read_text()


def strip_cpp_comments(s):
    s = re.sub(r"/\*.*?\*/", lambda m: "\n" * m.group(0).count("\n"), s, flags=re.S)
    s = re.sub(r"//[^\n]*", "", s)
    return s


def find1(pattern, text, what, flags=re.S):
    m = re.search(pattern, text, flags)
    if not m:
        raise AnchorError(f"anchor not found: {what}")
    return m


def findall(pattern, text, what, flags=re.S, min_count=1):
    ms = re.findall(pattern, text, flags)
    if len(ms) < min_count:
        raise AnchorError(f"anchor not found: {what}")
    return ms


def cint(tok):
    """C++ integer literal -> int (0x.., 0.. octal, decimal; strips suffixes)."""
    t = tok.strip().rstrip("uUlL")
    if re.fullmatch(r"0[xX][0-9a-fA-F]+", t):
        return int(t, 16)
    if re.fullmatch(r"0[0-7]+", t):
        return int(t, 8)
    if re.fullmatch(r"-?\d+", t):
        return int(t)
    raise AnchorError(f"not an integer literal: {tok!r}")


def coq_N(n):
    return f"{n}%N"


def coq_list_N(xs):
    return "[" + "; ".join(str(x) for x in xs) + "]%N"


def coq_list_Z(xs):
    return "[" + "; ".join(f"({x})" if x < 0 else str(x) for x in xs) + "]%Z"
