#!/bin/sh
# MANIFEST.setup_cmd: build the whole Coq development once (full .vo), offline, so that the
# per-property checks only rebuild what a source change invalidates.
set -e
cd "$(dirname "$0")/.."
python3 tools/setup.py
