#!/usr/bin/env python3
"""Writes MANIFEST.json from the table below (kept next to the checks so that it cannot drift)."""
import json
import sys
from pathlib import Path

VERIF = Path(__file__).resolve().parent.parent
PROOF_NOTE = ("Trusted: Coq 8.16.1 kernel incl. vm_compute; no axioms unless listed in the evidence's print_assumptions; "
              "the hand-written Gallina mirror of the C++ (Impl*.v) and the regex translator of constants (tools/consts), both "
              "checked on every run by regenerating the constants and by running the extracted model (ExtrOcamlBasic only) and the "
              "compiled implementation on the same inputs; g++/ocamlopt; the harness.")

CLAIMED = {
    "C09": dict(
        text="Machine-checked proof (Coq) for byte strings of every length: the C++ engine (mirror ImplCRC.v) equals the M17 "
             "specification CRC (SpecCRC.v), message++CRC checks to zero, every burst<=16 / single / double (distance<240) error "
             "changes the CRC; model tied to the source by regenerated template arguments and a differential run; exhaustive "
             "single/double/burst sweep on the real code as the violation search.",
        design="§4 C09", technique="Coq proof (2^16 register sweeps lifted by induction, GF(2) linearity) + extracted-model differential"),
    "C17": dict(
        text="Machine-checked proof (Coq) for every callsign of 1..9 characters over A-Z 0-9 - / . and for every 48-bit address: "
             "encode = the specification's base-40 address (uint64 never wraps), decode(encode s) = s, injective, broadcast, "
             "decode total with all indices in range and always NUL-terminated (model = code with fix 766f992, loop bound regenerated "
             "from the source); tie by regenerated constants and a differential run incl. all callsigns of length 1..3 (1..4 thorough).",
        design="§4 C17", technique="Coq proof (structural, base-40 numerals) + extracted-model differential"),
    "C18": dict(
        text="Machine-checked proof (Coq): the generator is the m-sequence of x^9+x^5+1 (period 511, 256 ones, all states); from "
             "every unsynced validator state with sync_count <= 9 (new, reset, after unlock; any register, counters, history) and every "
             "phase: lock within 27 bits on the generator's register; from then on, for error patterns of any length below 25 per 128, "
             "errors/bits are exact (uint32) and hist_count = popcount(window) (no size_t wrap); unlock exactly at 25; consecutive "
             "197-bit BERT slices relock with zero errors.  The same lock claim for sync_count up to 17 is refuted in the model (false "
             "lock, reachable only through non-sequence input) and bounded: true lock within 124 bits after exactly 25 spurious errors.  "
             "Tie: regenerated constants + differential run observing every validate().",
        design="§4 C18", technique="Coq proof (sweeps over 512/512^2/512x18 registers lifted by induction; circular-buffer invariant) + extracted-model differential"),
    "C12": dict(
        text="Machine-checked proof (Coq) for EVERY binary32 and binary64 datum (finite, infinite, NaN) of the width-4 soft demapper the modem "
             "instantiates: both soft bits non-zero within +-7; signs = Gray dibit of the nearest 4-FSK level whenever the exact value is farther "
             "than 1e-6 from 0, +-2; first soft bit antitone; second monotone in |x| on each half-line; saturation at/beyond +-3 and at the ideal "
             "levels; NaN/inf images. IEEE model computed inside Coq (SpecFloat = Flocq operations, proved), table tied bit-exactly to the "
             "compile-time C++ table; all 2^32 floats swept on the real code in the thorough tier. Widths 2 and 3 are refuted (known finding F11).",
        design="§4 C12", technique="Coq proof by order embedding + per-bin vm_compute checks; extracted-model differential; exhaustive C++ sweep",
        note=PROOF_NOTE + "  One theorem (c12_model_is_flocq_ieee, the bridge to Flocq's Bplus/Bdiv) depends on the standard library's real-number "
             "axioms sig_forall_dec, sig_not_dec, functional_extensionality_dep, classic; the other 17 are closed under the global context."),
    "C07": dict(
        text="Machine-checked proof (Coq) of index safety for the integer-indexed receive-path code on models in which every array access is checked "
             "(error monad): m17-demod's frame handlers for every callback history (any 30/18/26/25-byte buffers, any costs), AX.25 parsing for every "
             "byte string, LICH slot <= 5, framer index even and < 368 for every history, unpack_lich indices, and the clock sample index in 0..9 for every "
             "estimate in [0,10] (conditional on the floating-point estimators delivering a finite value in that range - tested, not proved).  Tie = model "
             "verdict <=> ASan/UBSan/_GLIBCXX_ASSERTIONS verdict on the same inputs, plus sanitizer runs of the real demodulator/decoder on hostile streams "
             "with run-time assertions on the public index members.  Viterbi/Golay/depuncture/callsign index obligations are proved in C02/C04/C11/C17.",
        design="§4 C07", technique="Coq proof over checked-access models + sanitizer differential",
        note=PROOF_NOTE + "  Memory safety of the C++ itself is not what the theorem states: it states that no index expression of the model leaves its array; "
             "the floating-point estimators, the standard library and everything the model does not describe rest on the sanitizer runs (exploration)."),
    "C20": dict(
        category="other",
        text="Proof (Coq) of the application-level handlers: for every valid source, destination/broadcast and CAN the text m17-demod prints for the "
             "specification's LSF is exactly the SRC/DEST/STR:V/V/CAN line with no packet diagnostic; stdout is 640 bytes per STREAM callback; the EOS frame "
             "prints EOS and ends the stream.  The pipeline itself (process start-up, pipes, the analogue path, exit status) is RUN, not proved: both "
             "applications are rebuilt from /repo on every run and m17-mod | m17-demod -l is executed over callsigns, CAN, audio kinds, polarity and leading "
             "noise with the oracle of the property statement.",
        design="§4 C20", technique="Coq proof of handler models + process-level pipeline runs (oracle = property statement)",
        note="Partial by design (DESIGN §9): handler theorems are about hand-written models tied by a differential run; everything analogue, Boost option "
             "parsing and iostreams are only tested.  One known finding (no acquisition for some link parameters with silent audio)."),
    "C02": dict(
        text="Machine-checked proof (Coq) that Viterbi<Trellis<4,2>,W>::decode (mirror ImplViterbi.v) is maximum-likelihood for the M17 "
             "convolutional code with a free tail: for every width 2..6, every even IN with IN/2<=244, OUT<=IN/2, every int8 soft vector "
             "(erasures, out-of-range values) and every state of the decoder object, the bits written are the first OUT bits of a globally "
             "distance-minimising input word, the cost is min/L rounded to nearest, the result does not depend on the object state, no "
             "int16/int32 value overflows; consequences for the four M17 geometries: correction of every flip pattern below half the "
             "computed free distance and exact decoding of clean code words under the P1/P2/P3 erasure masks.  The zero-terminated reading is "
             "refuted (interpretation note).  Model tied to the source by regenerated constants, table dump and a differential run "
             "(exhaustive over {-L,0,+L}^IN for small IN); independent reference DP / brute force on the real code as the violation search.",
        design="§4 C02", technique="Coq proof (generic layered-DP optimality, butterfly = relaxation, chainback = traceback, computed free distance) "
                                   "+ extracted-model differential with tie-break-rule matching"),
    "C04": dict(
        text="Machine-checked proof (Coq) over all 4096 data words and all 2^24 received words: Golay24::decode (mirror ImplGolay.v) corrects "
             "every error of weight <= 3, rejects every error of weight 4, accepts exactly the words within distance 3 of a codeword and then "
             "returns that unique codeword's data (= the bounded-distance decoder of SpecGolay.v); encode24 is the systematic, linear, "
             "minimum-distance-8 extended cyclic code g=0xC75 of the M17 specification; the table search never ends at LUT.end(). Model tied "
             "to the source by regenerated constants, the dumped LUT and a differential run (exhaustive over 2^24 words in the thorough tier); "
             "exhaustive evaluation of the statements on the compiled code as the violation search.",
        design="§4 C04", technique="Coq proof (GF(2) linearity + sweeps over 4096 data words / 2048 syndromes / 12951 patterns) + extracted-model differential"),
    "C10": dict(
        text="Machine-checked proof (Coq), polymorphic in the element type hence for all frame contents: the interleaver index is "
             "pi(i) = (45i + 92i^2) mod 368 at every instantiation site, a permutation (indeed an involution) of 0..367; interleave/deinterleave "
             "place every element as specified and are mutually inverse; the packed-byte variants equal the bit variants; the 46-byte sequence "
             "is the M17 sequence; soft (int8 with wrap), bit and byte randomizers are involutive and agree with each other and with XOR by the "
             "sequence (the one exception, soft value -128, is stated).  Tie: regenerated constants (every site), position-tagged frames through "
             "all seven variants (exhaustive over positions), random and extreme contents.",
        design="§4 C10", technique="Coq proof (computed permutation facts lifted polymorphically; bit-level lemmas) + extracted-model differential"),
    "C11": dict(
        text="Machine-checked proof (Coq) for all contents and all prior contents of the output buffer: for the four modem geometries "
             "(P1/488, P2/296, P2/402, P3/420) puncture keeps exactly the positions of the cyclically repeated matrix, in order, 368/272/368/368 "
             "bits (the BERT geometry cuts the 369th kept position - stated); make_p1 is the specification's 61-entry matrix; puncture_bytes "
             "agrees with puncture on bits; depuncture defines EVERY output position independently of the buffer's previous content (fix 0a665a2) "
             "and depuncture after puncture is the identity on kept positions and 0 elsewhere.  Tie: regenerated matrices and call-site geometries, "
             "position-tagged and random contents, pre-filled output buffers.",
        design="§4 C11", technique="Coq proof (loop invariants over the C++ loop guards, mask/keep/spread specification) + extracted-model differential"),
    "C03": dict(
        category="other",
        text="PARTIAL.  Proved in Coq: the demodulator's sync/framing control logic, as a step function over its discrete members driven by one "
             "observation record per sample, invokes the frame decoder exactly once per 192-symbol period on the 184 payload symbols with sync type STREAM, "
             "never unlocks and keeps missing_sync_count <= 1 along every observation sequence in which each period either finds the stream sync in the "
             "search window or coasts on a low Viterbi cost (c03_tracking_one_decode_per_frame), the EOT path, the range invariant, and the structural "
             "constants (LLR width, framer size, polarity).  NOT proved, only run end to end: that the floating-point estimators (Kalman clock, deviation/"
             "offset, correlator) deliver such observations and bit-exact frames over the channel envelope - a spec-derived transmitter, a closed-form RRC "
             "channel (timing phase, ppm, gain, DC, noise, lead-in history) and the real M17Demodulator in a fresh process per transmission, oracle = the "
             "property statement; the control model is tied by per-sample trace inclusion on the public members.",
        design="§4 C03, §9", technique="Coq proof of the control-logic model + per-sample trace inclusion + end-to-end channel rig (test)",
        note="Partial by design (DESIGN §9).  Floating-point convergence is tested, not proved; rounding is not modelled.  One known finding "
             "(slowly converging deviation estimator corrupts a late frame at gain 0.3)."),
    "C06": dict(
        category="other",
        text="PARTIAL.  Proved in Coq: DataCarrierDetect's averaged level stays finite for every history of blocks incl. exact zeros, infinities and NaN "
             "(the no-latch invariant, with fix 6204559), asserts/releases within an explicit number of blocks, and the pre-fix update is shown to latch; the "
             "sync state machine has no dead state: from every discrete state, under carrier detect and a fair clock, within 6424 samples the decoder is "
             "called or the receiver is listening again, a detection leads to a decode within 2036 samples, every unlock() re-arms the search.  NOT proved, "
             "only run end to end: that a clean M17 signal produces those observations and steady reception within 400 frames after every lead-in history "
             "(zeros, noise, constants, tones, earlier complete/truncated transmissions with gaps).",
        design="§4 C06, §9", technique="Coq proof of DCD (extended rationals) and control-logic models + trace inclusion + end-to-end channel rig (test)",
        note="Partial by design (DESIGN §9).  Rounding, signed zeros and float overflow are not modelled.  One known finding (receiver coasts on "
             "garbage frames after an earlier transmission with a short gap and stays deaf)."),
    "C19": dict(
        text="Machine-checked proof (Coq) over an arbitrary commutative ring, for every tap/coefficient list and every input sequence of any length: "
             "the FIR filter (circular history as written) outputs the convolution from the zero state, reset() restores it from any state, it is linear "
             "and time-invariant; the IIR filter realises its difference equation (the code never reads a[0]; the repository's three coefficient sets have "
             "a0 = 1 exactly); the sliding DFT recurrence equals the DFT bin of the last N samples when w^N = 1 (conjugate bin, equal magnitude), NSlidingDFT "
             "= per-bin SlidingDFT, and the DCD configuration satisfies N*f = 0 mod SampleRate; by exact dyadic arithmetic on the regenerated literals: all "
             "four RRC tables are symmetric about their peak and every TX x RX cascade has symbol-spaced side taps < 0.5 % each and < 2 % in sum; the table "
             "copies are consistent.  Floating-point rounding is TESTED within stated tolerances, not verified.",
        design="§4 C19", technique="Coq proof (ring-generic induction; exact integer arithmetic on regenerated dyadic tables) + tolerance differential vs the float/double code",
        note=PROOF_NOTE + "  The theorems are exact-arithmetic statements; that the float/double instantiations stay within the stated tolerance of the exact model, "
             "and that std::exp yields an N-th root of unity to rounding, is tested only."),
    "C15": dict(
        text="Machine-checked proof (Coq) over a small-step interleaving semantics of queue.h (one labelled step per statement that touches shared state or "
             "synchronises; condition variables with notify/timeout/spurious wake-ups; arbitrary scheduler and clock; any number of threads, any operation "
             "sequences, any capacity): by induction over all reachable configurations the queue never exceeds its capacity, enq = deq ++ items (each accepted "
             "item delivered at most once, in order, none lost), responses match commits and the history is linearizable to a sequential bounded FIFO, each "
             "producer's items stay in order, and EVERY access to items/size_/state_ happens with the mutex held (race freedom, with fix 7d84b7c; which methods "
             "take the lock is regenerated from the source on every run).  Tie: sequential differential, real-thread stress with the response oracle, trace "
             "inclusion through the guarded hook (extracted checker proved sound and complete for the relation), ThreadSanitizer as support.",
        design="§4 C15", technique="Coq proof (inductive invariants over an interleaving semantics) + trace inclusion via guarded hook + TSan stress",
        note=PROOF_NOTE + "  The semantics of std::mutex/condition_variable/clocks is hand-written and trusted; real memory-model effects of a race, fairness and "
             "libstdc++ internals are outside the model."),
    "C16": dict(
        text="Machine-checked proof (Coq) over the same interleaving model with the timeout arithmetic written out (int64 nanosecond wrap for finite "
             "timeouts, the no-deadline branch for duration::max()): a put/get returns false only because its deadline was reached, the queue was not open "
             "(put) or closed and empty (get), or a zero-timeout put found it full; an operation with the default timeout has no deadline and never times "
             "out (fix 5bc9c51); close() empties both wait sets, no put commits after close, what was accepted can still be drained in order, and a closed "
             "queue that is empty with no get mid-commit is CLOSED (fix 90c9014) so that gets fail at once without entering a wait.  Tie: real-time probes with "
             "generous margins (blocked vs returned), stress traces through the hook.",
        design="§4 C16", technique="Coq proof (inductive invariants, safety forms) + real-time probes on the compiled queue",
        note=PROOF_NOTE + "  Liveness/fairness (a woken waiter eventually runs) is tested by the probes, not proved.  Observation: finite timeouts within ~292 years of "
             "duration::max() in nanoseconds still wrap (c16_near_max_finite_timeout_wraps); the property speaks only of the default timeout."),
    "C13": dict(
        text="Machine-checked proof (Coq), for every source/destination callsign over the alphabet (empty destination = broadcast), CAN 0..15, every "
             "audio sample list of any length (incl. 0 and a partial last frame), any Codec2 oracle and any content of uninitialised storage: m17-mod's "
             "bitstream output (mirror ImplMod.v) is byte-for-byte the specification encoder's stream (SpecM17.v, written from the spec): preamble, LSF, "
             "frames numbered k mod 2^15 with LICH k mod 6 and the Codec2 payloads in order (partial frame zero-padded, since fix cd22b9b), EOS on the last, "
             "EOT marker, 10 zero bytes; the frame-number wrap is proved, not excluded.  Baseband (exact arithmetic): the output equals the truncation "
             "of 7168 x the continuous RRC shaping of the whole symbol stream incl. the EOT block (since fix 86e19cf the model flag regenerated from the "
             "source selects the positive theorem) and always fits int16.  Tie: the real binary run as a process (bitstream byte-exact, baseband +-1 LSB) "
             "with Codec2 bytes from libcodec2, the functions driven in-process, constants regenerated.",
        design="§4 C13", technique="Coq proof (pipeline = spec encoder; fold over the sample stream; exact-arithmetic FIR) + process-level and in-process differential",
        note=PROOF_NOTE + "  libcodec2 is an arbitrary function (Section variable); the double rounding of the FIR is compared within +-1 LSB, not verified; the "
             "never-ending BERT mode is checked frame by frame only."),
    "C14": dict(
        text="Machine-checked proof (Coq) over an event-schedule model of M17Modulator: for every schedule of samples/timeouts/ptt_on/ptt_off "
             "(any interleaving the API allows, repeated key-ups, 0..N frames per key-up), every Codec2 oracle and all callsigns, the bytes put are per "
             "key-up the 48-byte preamble, the specification's LSF frame (DST, SRC, TYPE 0x0005, valid CRC) and stream frames numbered 0.. with LICH k mod 6 "
             "and EOS on the last only, each bit-identical to the specification's encoding (SpecM17.v) - the packed-byte pipeline equals the bit-level spec; "
             "the machine returns to IDLE; with a blocking put (named hypothesis = C16's forever_never_times_out, tied to the queue.h text) every "
             "interleaving with a consumer of arbitrary speed delivers exactly the bytes put, and the hypothesis is shown necessary.  Tie: the real class "
             "run with real threads (scripted and racy schedules, slow consumers) against the extracted model and the self-consistency oracle.",
        design="§4 C14", technique="Coq proof (state machine over event schedules; byte pipeline = bit-level spec; bounded-FIFO abstraction) + real-thread differential",
        note=PROOF_NOTE + "  Wall-clock effects (the 40 ms warning, the 5 s get timeout under load) are covered as possibilities by the Timeout event, not timed; "
             "libcodec2 is an arbitrary function; threads/atomics and the real queue are outside this model (see C15/C16)."),
    "C05": dict(
        text="Machine-checked proof (Coq) about the mirror of M17FrameDecoder instantiated with the mirrors of the real stages: from EVERY decoder state "
             "(mode, collected fragments, any buffer contents), for EVERY frame under any sync type and along every history, each LSF handed to the callback "
             "passes the M17 CRC (= the specification's CRC, C09); Golay words with <= 3 errors each (parity bit included) unpack to exactly the 48 LICH "
             "bits (nibble packing proved for all contents, uses C04); fragment numbers 6/7 change nothing collected, 0..5 fill exactly their slot and bit; "
             "when, counting the arriving fragment, all six slots hold the chunks of one CRC-valid LSF it is reported bit-exact, OK, stream mode entered.  "
             "Tie: histories of LSF/stream frames (two interleaved LSFs, repeats, <=3-error words, numbers 6/7, 4-error words, flips, random frames) on the "
             "real decoder vs the extracted model, plus the ghost-state oracle.",
        design="§4 C05, §12.2", technique="Coq proof (case analysis of the decoder step; slot/bitmap arithmetic; Golay and CRC theorems reused) + extracted-model differential"),
    "C08": dict(
        text="Machine-checked proof (Coq): (1) no hidden state - two decoders in the same (mode, LICH bitmap, LSF buffer) give the same observation (mode, "
             "return code, viterbi_cost, callbacks) for the same frame and every later history, whatever their de-puncture/decode/output buffers and Viterbi "
             "scratch contain (uses C11 depuncture_defines_all and C02 scratch independence); (2) refinement - for every history from every state the "
             "observations are exactly those of the documented state machine (SpecFrames.sm_step, no buffers) whose payload decoder is the erasure-marking "
             "maximum-likelihood decoder (C02); (3) the state machine's transitions are the documented ones (LSF sync restarts, BERT sync always decodes, "
             "invalid sync types fall back to link setup and fail, packet EOF, TYPE dispatch).  Tie: all sequences up to length 3 (4 thorough) over 14 frame "
             "kinds + long random histories on fresh and pre-dirtied real decoders vs the extracted model and the state-machine oracle.",
        design="§4 C08, §12.2", technique="Coq proof (bisimulation up to hidden buffers; refinement to a buffer-free state machine) + extracted-model differential incl. pre-dirtied decoders"),
    "C01": dict(
        text="Machine-checked proof (Coq): for ALL payloads (2^240 LSFs, 2^144 stream payloads with every LICH fragment number 0..5, 2^206 packet and 2^197 "
             "BERT payloads), ALL magnitude vectors in {1..7}^368 and all decoder states with arbitrary hidden buffer contents, a frame produced by the "
             "specification encoder (SpecM17.v: convolutional code, puncturing, interleaving, randomizing, Golay LICH) is returned bit-exact by the frame-"
             "decoder model under the matching sync type/mode - with cost 0 at full confidence, the right return code, mode transition and callback; an LSF "
             "with a bad CRC fails without callback; the LICH of a stream frame in link-setup mode unpacks to exactly the fragment.  Corollaries for the frames "
             "m17-mod emits (via C13); frames of M17Modulator equal the spec encoder's (C14).  Composition of C02 (clean code words decode uniquely), C04, C10, "
             "C11 and spec-agreement lemmas.  Tie: clean frames from three transmitters (spec-derived generator, real m17-mod in bitstream and BERT mode, real "
             "M17Modulator with real threads) at soft levels 7 / 1 / random 1..7 through the real decoder vs the extracted model, re-encode oracle.",
        design="§4 C01, §12.2", technique="Coq proof (composition of stage theorems and spec-agreement lemmas) + extracted-model differential over three transmitters"),
}

NOT_YET = {}


def main():
    props = [json.loads(l) for l in (VERIF / "properties.jsonl").read_text().splitlines() if l.strip()]
    checks = []
    na = []
    for p in props:
        pid = p["id"]
        if pid in CLAIMED:
            c = CLAIMED[pid]
            checks.append({
                "property_id": pid,
                "quick_cmd": f"./check {pid} --tier quick",
                "thorough_cmd": f"./check {pid} --tier thorough",
                "evidence_file": f"evidence/{pid}.json",
                "replay_cmd_template": f"./check {pid} --replay {{path}}",
                "engine": "coq+differential",
                "level_claimed": {"category": c.get("category", "proof"), "text": c["text"], "design_ref": c["design"]},
                "level_note": c.get("note", PROOF_NOTE),
                "technique": c["technique"],
            })
        else:
            na.append({"property_id": pid, "reason": NOT_YET.get(pid, "check not built yet in this round (the technique applies; see DESIGN.md §4); not claimed until its theorems and tie exist")})
    m = {
        "version": 1,
        "setup_cmd": "sh tools/setup.sh",
        "hooks": {
            "guard": "M17CXX_VERIF",
            "enable": "harnesses are compiled with -DM17CXX_VERIF against /repo/include (tools/vlib.py cxx_flags(hooks=True))",
            "baseline_off_cmd": "cmake --build /repo/_build -- -k 0 ; ctest --test-dir /repo/_build -j8 --timeout 900",
            "source_commits": ["8d45f30"],
            "add_only": True,
        },
        "engines": [{"name": "coq+differential", "path": "tools/check.py",
                     "serves_properties": sorted(CLAIMED),
                     "kind_free_text": "Coq 8.16 theorems about Gallina models + extracted-OCaml vs compiled-C++ correspondence check"}],
        "checks": checks,
        "not_applicable": na,
        "notes": "Single entry point ./check <id> --tier quick|thorough.  known_findings.txt lists fixed defects and recorded findings.  "
                 "Tie of model and code on every run: constants/tables/structural facts regenerated from the source by tools/consts/*.py "
                 "AND a correspondence run (extracted model vs compiled implementation on the same inputs/histories/schedules).  If a "
                 "translator cannot read the current source, the committed reference translation coqref/ is used for it, the run prints a "
                 "NOTE line, records tie: correspondence-only in the evidence and the correspondence run decides (DESIGN 12.7; "
                 "VERIF_STRICT_TRANSLATOR=1 makes that a reported break instead).",
    }
    (VERIF / "MANIFEST.json").write_text(json.dumps(m, indent=1) + "\n")


if __name__ == "__main__":
    main()
