#!/usr/bin/env python3
"""Writes MANIFEST.json from the table below (kept next to the checks so that it cannot drift)."""
import json
import sys
from pathlib import Path

VERIF = Path(__file__).resolve().parent.parent
PROOF_NOTE = ("Trusted: Coq 8.16.1 kernel incl. vm_compute; no axioms unless listed in the evidence's print_assumptions; "
              "the hand-written Gallina mirror of the C++ (Impl*.v) and the regex translator of constants (tools/consts), both "
              "checked on every run by regenerating the constants and by running the extracted model (ExtrOcamlBasic only) and the "
              "compiled implementation on the same inputs; g++/ocamlopt; the harness.")

CLAIMED = {
    "C09": dict(
        text="Machine-checked proof (Coq) for byte strings of every length: the C++ engine (mirror ImplCRC.v) equals the M17 "
             "specification CRC (SpecCRC.v), message++CRC checks to zero, every burst<=16 / single / double (distance<240) error "
             "changes the CRC; model tied to the source by regenerated template arguments and a differential run; exhaustive "
             "single/double/burst sweep on the real code as the violation search.",
        design="§4 C09", technique="Coq proof (2^16 register sweeps lifted by induction, GF(2) linearity) + extracted-model differential"),
    "C02": dict(
        text="Machine-checked proof (Coq) that Viterbi<Trellis<4,2>,W>::decode (mirror ImplViterbi.v) is maximum-likelihood for the M17 "
             "convolutional code with a free tail: for every width 2..6, every even IN with IN/2<=244, OUT<=IN/2, every int8 soft vector "
             "(erasures, out-of-range values) and every state of the decoder object, the bits written are the first OUT bits of a globally "
             "distance-minimising input word, the cost is min/L rounded to nearest, the result does not depend on the object state, no "
             "int16/int32 value overflows; consequences for the four M17 geometries: correction of every flip pattern below half the "
             "computed free distance and exact decoding of clean code words under the P1/P2/P3 erasure masks.  The zero-terminated reading is "
             "refuted (interpretation note).  Model tied to the source by regenerated constants, table dump and a differential run "
             "(exhaustive over {-L,0,+L}^IN for small IN); independent reference DP / brute force on the real code as the violation search.",
        design="§4 C02", technique="Coq proof (generic layered-DP optimality, butterfly = relaxation, chainback = traceback, computed free distance) "
                                   "+ extracted-model differential with tie-break-rule matching"),
}

NOT_YET = {}


def main():
    props = [json.loads(l) for l in (VERIF / "properties.jsonl").read_text().splitlines() if l.strip()]
    checks = []
    na = []
    for p in props:
        pid = p["id"]
        if pid in CLAIMED:
            c = CLAIMED[pid]
            checks.append({
                "property_id": pid,
                "quick_cmd": f"./check {pid} --tier quick",
                "thorough_cmd": f"./check {pid} --tier thorough",
                "evidence_file": f"evidence/{pid}.json",
                "replay_cmd_template": f"./check {pid} --replay {{path}}",
                "engine": "coq+differential",
                "level_claimed": {"category": c.get("category", "proof"), "text": c["text"], "design_ref": c["design"]},
                "level_note": c.get("note", PROOF_NOTE),
                "technique": c["technique"],
            })
        else:
            na.append({"property_id": pid, "reason": NOT_YET.get(pid, "check not built yet in this round (the technique applies; see DESIGN.md §4); not claimed until its theorems and tie exist")})
    m = {
        "version": 1,
        "setup_cmd": "sh tools/setup.sh",
        "hooks": {
            "guard": "M17CXX_VERIF",
            "enable": "harnesses are compiled with -DM17CXX_VERIF against /repo/include (tools/vlib.py cxx_flags(hooks=True))",
            "baseline_off_cmd": "cmake --build /repo/_build -- -k 0 ; ctest --test-dir /repo/_build -j8 --timeout 900",
            "source_commits": [],
            "add_only": True,
        },
        "engines": [{"name": "coq+differential", "path": "tools/check.py",
                     "serves_properties": sorted(CLAIMED),
                     "kind_free_text": "Coq 8.16 theorems about Gallina models + extracted-OCaml vs compiled-C++ correspondence check"}],
        "checks": checks,
        "not_applicable": na,
        "notes": "Single entry point ./check <id> --tier quick|thorough.  known_findings.txt lists fixed defects and recorded findings.",
    }
    (VERIF / "MANIFEST.json").write_text(json.dumps(m, indent=1) + "\n")


if __name__ == "__main__":
    main()
