"""Constants of the demodulator's control logic and of the carrier detector, read from the current source text:
M17Demodulator.h (thresholds, cadences, search window, cost limits, the DCD instantiation), DataCarrierDetect.h
(averaging weights, the isfinite guard), Correlator.h (buffer geometry), M17Framer.h, ClockRecovery.h."""
import re
from fractions import Fraction
from vlib import read, strip_cpp_comments, find1, findall, cint, AnchorError


def dec_q(tok):
    """decimal literal -> Coq Q literal (the exact decimal value; binary rounding is not modelled)"""
    t = tok.strip().rstrip("fFlL")
    try:
        fr = Fraction(t)
    except (ValueError, ZeroDivisionError):
        raise AnchorError(f"not a decimal literal: {tok!r}")
    if fr.numerator < 0:
        return f"((-{-fr.numerator}) # {fr.denominator})"
    return f"({fr.numerator} # {fr.denominator})"


def generate(repo):
    out = ["From Coq Require Import ZArith QArith List.", "Import ListNotations.", "Local Open Scope Z_scope.", ""]
    d = strip_cpp_comments(read(repo, "include/m17cxx/M17Demodulator.h"))

    def const(name, ctype=r"[A-Za-z0-9_:]+"):
        m = find1(r"static\s+constexpr\s+%s\s+%s\s*=\s*([^;]+);" % (ctype, name), d, f"M17Demodulator::{name}")
        return m.group(1).strip()

    sample_rate = cint(const("SAMPLE_RATE"))
    symbol_rate = cint(const("SYMBOL_RATE"))
    sps_expr = const("SAMPLES_PER_SYMBOL")
    if re.sub(r"\s", "", sps_expr) != "SAMPLE_RATE/SYMBOL_RATE":
        raise AnchorError("SAMPLES_PER_SYMBOL is no longer SAMPLE_RATE / SYMBOL_RATE")
    block = cint(const("BLOCK_SIZE"))
    out.append(f"Definition SAMPLE_RATE : Z := {sample_rate}.")
    out.append(f"Definition SYMBOL_RATE : Z := {symbol_rate}.")
    out.append(f"Definition SAMPLES_PER_SYMBOL : Z := {sample_rate // symbol_rate}.")
    out.append(f"Definition BLOCK_SIZE : Z := {block}.")
    for name in ("STREAM_COST_LIMIT", "PACKET_COST_LIMIT", "MAX_MISSING_SYNC", "MIN_SYNC_COUNT", "MAX_SYNC_COUNT"):
        out.append(f"Definition {name} : Z := {cint(const(name))}.")
    out.append(f"Definition EOT_TRIGGER_LEVEL : Q := {dec_q(const('EOT_TRIGGER_LEVEL'))}.")

    # DCD instantiation: DataCarrierDetect<FloatType, SAMPLE_RATE, 400> dcd{2400, 3600, 0.1, 4.0};
    m = find1(r"DataCarrierDetect\s*<\s*FloatType\s*,\s*SAMPLE_RATE\s*,\s*(\d+)\s*>\s*dcd\s*\{\s*(\d+)\s*,\s*(\d+)\s*,\s*([0-9.eE+-]+)\s*,\s*([0-9.eE+-]+)\s*\}",
              d, "DataCarrierDetect instantiation")
    acc = int(m.group(1))
    out.append(f"Definition DCD_ACCURACY : Z := {acc}.")
    out.append(f"Definition DCD_DFT_LEN : Z := {sample_rate // acc}.   (* SampleRate / Accuracy *)")
    out.append(f"Definition DCD_FREQ_IN : Z := {int(m.group(2))}.")
    out.append(f"Definition DCD_FREQ_OUT : Z := {int(m.group(3))}.")
    out.append(f"Definition DCD_LTRIGGER : Q := {dec_q(m.group(4))}.")
    out.append(f"Definition DCD_HTRIGGER : Q := {dec_q(m.group(5))}.")

    # start-up, polling cadence
    m = find1(r"static\s+int16_t\s+initializing\s*=\s*(\d+)\s*;", d, "static initializing")
    out.append(f"Definition INITIALIZING : Z := {int(m.group(1))}.")
    m = find1(r"if\s*\(\s*!dcd_\s*\)\s*\{\s*if\s*\(\s*count_\s*%\s*\(\s*BLOCK_SIZE\s*\*\s*(\d+)\s*\)\s*==\s*0\s*\)", d, "polling cadence without carrier")
    out.append(f"Definition POLL_NODCD : Z := {block * int(m.group(1))}.")
    m = find1(r"break;\s*\}\s*if\s*\(\s*count_\s*%\s*\(\s*BLOCK_SIZE\s*\*\s*(\d+)\s*\)\s*==\s*0\s*\)\s*\{\s*update_dcd\s*\(\s*\)\s*;\s*count_\s*=\s*0\s*;", d,
              "polling cadence with carrier")
    out.append(f"Definition POLL_DCD : Z := {block * int(m.group(1))}.")

    # do_unlocked: preamble phase length; do_lsf_sync: time-out and long-preamble threshold
    m = find1(r"do_unlocked\s*\(\s*\)\s*\{\s*if\s*\(\s*missing_sync_count\s*<\s*(\d+)\s*\)", d, "do_unlocked preamble phase")
    out.append(f"Definition PREAMBLE_PHASE : Z := {int(m.group(1))}.")
    m = find1(r"else\s+if\s*\(\s*\+\+missing_sync_count\s*>\s*(\d+)\s*\)\s*\{\s*if\s*\(\s*sync_count\s*>=\s*(\d+)\s*\)", d, "do_lsf_sync time-out")
    out.append(f"Definition LSF_SYNC_TIMEOUT : Z := {int(m.group(1))}.")
    out.append(f"Definition LONG_PREAMBLE : Z := {int(m.group(2))}.")
    m = find1(r"sync_triggered\s*=\s*preamble_sync\.triggered\(correlator\);\s*if\s*\(\s*sync_triggered\s*>\s*([0-9.]+)\s*\)", d, "preamble trigger level")
    out.append(f"Definition LSF_TRIGGER_LEVEL : Q := {dec_q(m.group(1))}.")
    m = find1(r"std::abs\(sync_triggered\)\s*>\s*([0-9.]+)", d, "lsf trigger level")
    if Fraction(m.group(1)) != Fraction("0.1"):
        pass
    out.append(f"Definition LSF_ABS_TRIGGER_LEVEL : Q := {dec_q(m.group(1))}.")
    # far point of the free-running clock update
    find1(r"abs\(int\(sample_index\s*-\s*correlator\.index\(\)\)\)\s*==\s*\(SAMPLES_PER_SYMBOL\s*/\s*2\)", d, "do_frame far point")
    out.append(f"Definition FAR_POINT : Z := {sample_rate // symbol_rate // 2}.")
    # LLR width and framer size
    m = find1(r"llr\s*<\s*FloatType\s*,\s*(\d+)\s*>\s*\(\s*sample\s*\)", d, "llr width")
    out.append(f"Definition LLR_WIDTH : Z := {int(m.group(1))}.")
    fd = strip_cpp_comments(read(repo, "include/m17cxx/M17FrameDecoder.h"))
    mv = find1(r"Viterbi\s*<\s*decltype\(trellis_\)\s*,\s*(\d+)\s*>\s*viterbi_", fd, "frame decoder's Viterbi LLR width")
    out.append(f"Definition VITERBI_LLR_WIDTH : Z := {int(mv.group(1))}.   (* M17FrameDecoder: Viterbi<decltype(trellis_), N> *)")
    m = find1(r"M17Framer\s*<\s*(\d+)\s*>\s*framer\s*;", d, "framer size")
    out.append(f"Definition FRAMER_BITS : Z := {int(m.group(1))}.")
    m = find1(r"int8_t\s+polarity\s*=\s*(-?\d+)\s*;", d, "polarity")
    out.append(f"Definition POLARITY : Z := {int(m.group(1))}.")
    # sync words (symbols) and their thresholds
    for nm in ("preamble_sync", "lsf_sync", "packet_sync", "eot_sync"):
        m = find1(r"sync_word_t\s+%s\s*\{\s*\{([^}]*)\}\s*,\s*([0-9.+-]+)f?\s*(?:,\s*([0-9.+-]+)f?\s*)?\}" % nm, d, f"sync word {nm}")
        syms = [int(x.replace("+", "")) for x in m.group(1).split(",")]
        out.append(f"Definition {nm}_symbols : list Z := [" + "; ".join(f"({x})" if x < 0 else str(x) for x in syms) + "].")
        out.append(f"Definition {nm}_mag1 : Q := {dec_q(m.group(2))}.")
        if m.group(3):
            out.append(f"Definition {nm}_mag2 : Q := {dec_q(m.group(3))}.")

    # DataCarrierDetect::update(): weights, guard
    h = strip_cpp_comments(read(repo, "include/m17cxx/DataCarrierDetect.h"))
    body = find1(r"void\s+update\s*\(\s*\)\s*\{(.*?)\n\s*\}", h, "DataCarrierDetect::update").group(1)
    m = re.search(r"level_\s*=\s*level_\s*\*\s*([0-9.]+)\s*\+\s*([0-9.]+)\s*\*\s*(ratio|\(\s*level_1\s*/\s*level_2\s*\))\s*;", body)
    if not m:
        raise AnchorError("DataCarrierDetect::update averaging statement")
    out.append(f"Definition DCD_KEEP : Q := {dec_q(m.group(1))}.")
    out.append(f"Definition DCD_GAIN : Q := {dec_q(m.group(2))}.")
    guarded = bool(re.search(r"ratio\s*=\s*level_1\s*/\s*level_2\s*;\s*if\s*\(\s*!\s*std::isfinite\s*\(\s*ratio\s*\)\s*\)\s*ratio\s*=\s*0(\.0)?\s*;", body)) \
        and m.group(3) == "ratio"
    out.append(f"Definition DCD_RATIO_GUARDED : bool := {'true' if guarded else 'false'}.   (* if (!std::isfinite(ratio)) ratio = 0.0; *)")
    # the hysteresis statement and unlock() are not anchored textually: their behaviour is tied by the member-value differential of C06

    c = strip_cpp_comments(read(repo, "include/m17cxx/Correlator.h"))
    m = find1(r"static\s+constexpr\s+size_t\s+SYMBOLS\s*=\s*(\d+)\s*;\s*static\s+constexpr\s+size_t\s+SAMPLES_PER_SYMBOL\s*=\s*(\d+)\s*;", c, "Correlator geometry")
    out.append(f"Definition CORR_SYMBOLS : Z := {int(m.group(1))}.")
    out.append(f"Definition CORR_SPS : Z := {int(m.group(2))}.")
    out.append(f"Definition CORR_BUFFER : Z := {int(m.group(1)) * int(m.group(2))}.")
    return "\n".join(out) + "\n"
