"""detail::DC (the 46-byte randomizing sequence) and the sizes at which the modem instantiates the randomizers."""
import re
from vlib import read, strip_cpp_comments, find1, findall, cint, AnchorError, coq_list_N


def dc_bytes(repo):
    h = strip_cpp_comments(read(repo, "include/m17cxx/M17Randomizer.h"))
    m = find1(r"inline\s+auto\s+DC\s*=\s*std::array\s*<\s*uint8_t\s*,\s*(\d+)\s*>\s*\{([^}]*)\}\s*;", h, "detail::DC")
    n = int(m.group(1))
    vals = [cint(t) for t in m.group(2).replace("\n", " ").split(",") if t.strip()]
    if len(vals) != n:
        raise AnchorError(f"detail::DC declares {n} entries but lists {len(vals)}")
    if any(v < 0 or v > 255 for v in vals):
        raise AnchorError("detail::DC entry outside uint8_t")
    return vals


def sites(repo):
    """([(site, N)] for M17Randomizer<N>, [(site, N)] for M17ByteRandomizer<N>), defaults first."""
    h = strip_cpp_comments(read(repo, "include/m17cxx/M17Randomizer.h"))
    m1 = find1(r"template\s*<\s*size_t\s+N\s*=\s*(\d+)\s*>\s*struct\s+M17Randomizer\b", h, "M17Randomizer default size")
    m2 = find1(r"template\s*<\s*size_t\s+N\s*=\s*(\d+)\s*>\s*struct\s+M17ByteRandomizer\b", h, "M17ByteRandomizer default size")
    soft = [("default", int(m1.group(1)))]
    byte = [("default", int(m2.group(1)))]
    s = strip_cpp_comments(read(repo, "include/m17cxx/M17FrameDecoder.h"))
    m = find1(r"M17Randomizer\s*<\s*(\d+)\s*>\s*derandomize_\s*;", s, "M17Randomizer instantiation in M17FrameDecoder.h")
    soft.append(("decoder", int(m.group(1))))
    s = strip_cpp_comments(read(repo, "include/m17cxx/M17Modulator.h"))
    m = find1(r"M17ByteRandomizer\s*<\s*(\d+)\s*>\s*randomizer_\s*;", s, "M17ByteRandomizer instantiation in M17Modulator.h")
    byte.append(("modulator", int(m.group(1))))
    s = strip_cpp_comments(read(repo, "apps/m17-mod.cpp"))
    for i, n in enumerate(findall(r"M17Randomizer\s*<\s*(\d+)\s*>\s*randomizer\s*;", s, "M17Randomizer instantiations in m17-mod.cpp")):
        soft.append((f"mod{i}", int(n)))
    return soft, byte


def generate(repo):
    vals = dc_bytes(repo)
    soft, byte = sites(repo)
    out = ["From Coq Require Import NArith ZArith List.", "Import ListNotations.", ""]
    out.append("(* inline auto DC = std::array<uint8_t, 46>{...} *)")
    out.append("Definition DC : list N := " + coq_list_N(vals) + ".")
    out.append("(* N of M17Randomizer<N>: " + ", ".join(s for s, _ in soft) + " *)")
    out.append("Definition rnd_soft_sites : list N := " + coq_list_N([n for _, n in soft]) + ".")
    out.append("(* N of M17ByteRandomizer<N>: " + ", ".join(s for s, _ in byte) + " *)")
    out.append("Definition rnd_byte_sites : list N := " + coq_list_N([n for _, n in byte]) + ".")
    out.append(f"Definition rnd_N : nat := {soft[1][1]}.  (* M17FrameDecoder::derandomize_ *)")
    out.append(f"Definition rnd_bytes_N : nat := {byte[1][1]}.  (* M17Modulator::randomizer_ *)")
    return "\n".join(out) + "\n"
