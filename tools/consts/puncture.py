"""Puncture matrices P2/P3, the loop constants of make_p1, and the (matrix, IN, OUT) geometry at every call site."""
import re
from vlib import read, strip_cpp_comments, find1, findall, cint, AnchorError, coq_list_N


def matrices(repo):
    h = strip_cpp_comments(read(repo, "include/m17cxx/Trellis.h"))
    res = {}
    for name in ("P2", "P3"):
        m = find1(r"inline\s+constexpr\s+auto\s+%s\s*=\s*std::array\s*<\s*int8_t\s*,\s*(\d+)\s*>\s*\{([^}]*)\}\s*;" % name, h, f"{name} literal")
        vals = [cint(t) for t in m.group(2).replace("\n", " ").split(",") if t.strip()]
        if len(vals) != int(m.group(1)):
            raise AnchorError(f"{name} declares {m.group(1)} entries but lists {len(vals)}")
        if any(v < 0 or v > 127 for v in vals):
            raise AnchorError(f"{name}: entry outside 0..127 is not representable in the model")
        res[name] = vals
    m = find1(r"std::array\s*<\s*int8_t\s*,\s*(\d+)\s*>\s*make_p1\s*\(\s*\)\s*\{\s*std::array\s*<\s*int8_t\s*,\s*(\d+)\s*>\s*result\s*\{\s*\}\s*;\s*"
              r"for\s*\(\s*size_t\s+i\s*=\s*0\s*,\s*j\s*=\s*(\d+)\s*;\s*i\s*!=\s*(\d+)\s*;\s*\+\+i\s*\)\s*\{\s*"
              r"if\s*\(\s*i\s*==\s*j\s*\)\s*\{\s*result\[i\]\s*=\s*(\d+)\s*;\s*j\s*\+=\s*(\d+)\s*;\s*\}\s*else\s*\{\s*result\[i\]\s*=\s*(\d+)\s*;",
              h, "make_p1 loop")
    n1, n2, j0, n3, vhit, stride, velse = (int(x) for x in m.groups())
    if not (n1 == n2 == n3):
        raise AnchorError("make_p1: array sizes and loop bound differ")
    res["p1"] = (n1, j0, stride, vhit, velse)
    find1(r"inline\s+constexpr\s+auto\s+P1\s*=\s*make_p1\s*\(\s*\)\s*;", h, "P1 = make_p1()")
    return res


def sites(repo):
    """geometry of every call: (site, matrix name, IN, OUT).  depuncture: IN = received, OUT = buffer size."""
    out = {"depuncture": [], "puncture": [], "puncture_bytes": []}
    s = strip_cpp_comments(read(repo, "include/m17cxx/M17FrameDecoder.h"))
    m = find1(r"using\s+depunctured_buffer_t\s*=\s*union\s*\{([^}]*)\}", s, "depunctured_buffer_t")
    sizes = {name: int(n) for n, name in re.findall(r"std::array\s*<\s*int8_t\s*,\s*(\d+)\s*>\s*(\w+)\s*;", m.group(1))}
    m = find1(r"using\s+input_buffer_t\s*=\s*std::array\s*<\s*int8_t\s*,\s*(\d+)\s*>", s, "input_buffer_t")
    inbuf = int(m.group(1))
    calls = findall(r"depuncture\s*\(\s*(\w+)\s*,\s*depuncture_buffer\.(\w+)\s*,\s*(P\d)\s*\)", s, "depuncture calls in M17FrameDecoder.h", min_count=4)
    for src, member, p in calls:
        if member not in sizes:
            raise AnchorError(f"depuncture_buffer.{member} not declared")
        if src == "buffer":
            n_in = inbuf
        else:
            mm = find1(r"std::array\s*<\s*int8_t\s*,\s*(\d+)\s*>\s*%s\s*;" % re.escape(src), s, f"declaration of {src}")
            n_in = int(mm.group(1))
        out["depuncture"].append((member, p, n_in, sizes[member]))
    s = strip_cpp_comments(read(repo, "apps/m17-mod.cpp"))
    aliases = {a: int(n) for a, n in re.findall(r"using\s+(\w+)\s*=\s*std::array\s*<\s*int8_t\s*,\s*(\d+)\s*>\s*;", s)}
    # each call: the nearest preceding declaration of `encoded` and of `punctured`
    for mm in re.finditer(r"puncture\s*\(\s*encoded\s*,\s*punctured\s*,\s*(?:mobilinkd::)?(P\d)\s*\)", s):
        before = s[:mm.start()]
        e = re.findall(r"std::array\s*<\s*uint8_t\s*,\s*(\d+)\s*>\s*encoded\s*;", before)
        p = re.findall(r"(std::array\s*<\s*int8_t\s*,\s*(\d+)\s*>|\w+)\s+punctured\s*;", before)
        if not e or not p:
            raise AnchorError("m17-mod.cpp: declaration of encoded/punctured before a puncture() call not found")
        full, num = p[-1]
        if num:
            n_out = int(num)
        elif full in aliases:
            n_out = aliases[full]
        else:
            raise AnchorError(f"m17-mod.cpp: type {full} of punctured not resolved")
        out["puncture"].append((f"mod{len(out['puncture'])}", mm.group(1), int(e[-1]), n_out))
    if len(out["puncture"]) < 3:
        raise AnchorError("m17-mod.cpp: fewer than 3 puncture() calls recognised")
    s = strip_cpp_comments(read(repo, "include/m17cxx/M17Modulator.h"))
    aliases = {a: int(n) for a, n in re.findall(r"using\s+(\w+)\s*=\s*std::array\s*<\s*uint8_t\s*,\s*(\d+)\s*>\s*;", s)}
    find1(r"static\s+std::array\s*<\s*T\s*,\s*N\s*\*\s*2\s*\+\s*1\s*>\s*conv_encode\s*\(\s*std::array\s*<\s*T\s*,\s*N\s*>\s*data\s*\)", s, "conv_encode signature (2N+1)")
    for mm in re.finditer(r"auto\s+encoded\s*=\s*conv_encode\s*\(\s*(\w+)\s*\)\s*;\s*(std::array\s*<\s*uint8_t\s*,\s*(\d+)\s*>|\w+)\s+punctured\s*;\s*"
                          r"auto\s+size\s*=\s*puncture_bytes\s*\(\s*encoded\s*,\s*punctured\s*,\s*(?:mobilinkd::)?(P\d)\s*\)", s):
        arg, full, num, p = mm.groups()
        before = s[:mm.start()]
        d = re.findall(r"(std::array\s*<\s*uint8_t\s*,\s*(\d+)\s*>|\w+)\s+%s\s*[;=]" % re.escape(arg), before)
        if not d:
            raise AnchorError(f"M17Modulator.h: declaration of {arg} not found")
        dfull, dnum = d[-1]
        n_arg = int(dnum) if dnum else aliases.get(dfull)
        n_out = int(num) if num else aliases.get(full)
        if n_arg is None or n_out is None:
            raise AnchorError("M17Modulator.h: puncture_bytes geometry not resolved")
        out["puncture_bytes"].append((f"modulator{len(out['puncture_bytes'])}", p, 2 * n_arg + 1, n_out))
    if len(out["puncture_bytes"]) < 2:
        raise AnchorError("M17Modulator.h: fewer than 2 puncture_bytes() calls recognised")
    return out


def generate(repo):
    ms = matrices(repo)
    ss = sites(repo)
    n, j0, stride, vhit, velse = ms["p1"]
    pid = {"P1": 1, "P2": 2, "P3": 3}
    out = ["From Coq Require Import NArith List.", "Import ListNotations.", ""]
    out.append("(* inline constexpr auto P2 = std::array<int8_t, 12>{...};  P3 = std::array<int8_t, 8>{...} *)")
    out.append("Definition P2 : list N := " + coq_list_N(ms["P2"]) + ".")
    out.append("Definition P3 : list N := " + coq_list_N(ms["P3"]) + ".")
    out.append("(* make_p1(): for (i = 0, j = J0; i != SIZE; ++i) if (i == j) { result[i] = HIT; j += STRIDE; } else result[i] = ELSE; *)")
    out.append(f"Definition p1_size : nat := {n}.")
    out.append(f"Definition p1_j0 : nat := {j0}.")
    out.append(f"Definition p1_stride : nat := {stride}.")
    out.append(f"Definition p1_hit : N := {vhit}%N.")
    out.append(f"Definition p1_else : N := {velse}%N.")
    for kind, comment in (("depuncture", "M17FrameDecoder: depuncture(in[IN], depuncture_buffer.x[OUT], Pk)  as (k, IN, OUT): "),
                          ("puncture", "m17-mod.cpp: puncture(encoded[IN], punctured[OUT], Pk) as (k, IN, OUT): "),
                          ("puncture_bytes", "M17Modulator: puncture_bytes(encoded[IN bytes], punctured[OUT bytes], Pk) as (k, IN, OUT): ")):
        out.append("(* " + comment + ", ".join(x[0] for x in ss[kind]) + " *)")
        out.append(f"Definition {kind}_sites : list (N * N * N) := [" + "; ".join(f"({pid[p]}, {a}, {b})" for _, p, a, b in ss[kind]) + "]%N.")
    return "\n".join(out) + "\n"
