"""Source-level audit of include/m17cxx/queue.h, regenerated on every run into coq/gen/ConstsQueue.v.

For each public method: is a lock_type/guard_type on mutex_ constructed before the first access to
queue_/size_/state_ (the booleans the race_free theorem's model is parameterised by); is the
CLOSING->CLOSED statement an assignment; is the default (max()) timeout waited for without a deadline;
does close() notify *all* waiters of both condition variables.  Anchors that no longer match raise
AnchorError (reported as a broken tie)."""
import re
from vlib import read, strip_cpp_comments, find1, AnchorError

HEADER = "include/m17cxx/queue.h"
METHODS = [  # (coq name, regex of the signature up to the opening brace)
    ("get_until", r"bool\s+get_until\s*\([^)]*\)\s*\{"),
    ("get", r"bool\s+get\s*\(.*?::max\(\)\s*\)\s*\{"),
    ("put", r"bool\s+put\s*\(.*?::max\(\)\s*\)\s*\{"),
    ("close", r"void\s+close\s*\(\s*\)\s*\{"),
    ("is_open", r"bool\s+is_open\s*\(\s*\)\s*const\s*\{"),
    ("is_closed", r"bool\s+is_closed\s*\(\s*\)\s*const\s*\{"),
    ("size", r"size_t\s+size\s*\(\s*\)\s*const\s*\{"),
    ("empty", r"bool\s+empty\s*\(\s*\)\s*const\s*\{"),
]
LOCK = re.compile(r"\b(?:lock_type|guard_type|std::unique_lock\s*<[^>]*>|std::lock_guard\s*<[^>]*>|std::scoped_lock(?:\s*<[^>]*>)?)\s+\w+\s*[({]\s*mutex_\s*[)}]\s*;")
ACCESS = re.compile(r"\b(?:queue_|size_|state_)\b")


def body_of(text, sig, what):
    m = find1(sig, text, f"signature of queue::{what}")
    i = m.end()
    depth = 1
    while i < len(text) and depth:
        depth += {"{": 1, "}": -1}.get(text[i], 0)
        i += 1
    if depth:
        raise AnchorError(f"unbalanced braces in queue::{what}")
    return text[m.end():i - 1]


def b(x):
    return "true" if x else "false"


def audit(repo):
    h = strip_cpp_comments(read(repo, HEADER))
    # the add-only verification hook (#ifdef M17CXX_VERIF ... #endif) is not part of the audited text
    h = re.sub(r"#ifdef\s+M17CXX_VERIF\b.*?#endif[^\n]*\n", "", h, flags=re.S)
    find1(r"mutable\s+mutex_type\s+mutex_\s*;", h, "queue::mutex_ member")
    find1(r"enum\s+class\s+State\s*\{\s*OPEN\s*,\s*CLOSING\s*,\s*CLOSED\s*\}", h, "queue::State")
    res = {}
    bodies = {}
    for name, sig in METHODS:
        body = body_of(h, sig, name)
        bodies[name] = body
        lk = LOCK.search(body)
        ac = ACCESS.search(body)
        res["lock_" + name] = bool(lk) and (ac is None or lk.start() < ac.start())
    # the drain statement
    for name in ("get", "get_until"):
        m = find1(r"if\s*\(\s*state_\s*==\s*State::CLOSING\s*&&\s*queue_\.empty\(\)\s*\)\s*\{\s*state_\s*(==|=)\s*State::CLOSED\s*;\s*\}",
                  bodies[name], f"drain statement of queue::{name}")
        res["drain_assigns_" + name] = m.group(1) == "="
    # default timeout handled without a deadline
    p = bodies["put"]
    if re.search(r"if\s*\(\s*no_deadline\s*\)\s*\{\s*full_\.wait\s*\(\s*lock\s*\)\s*;", p) and \
       re.search(r"no_deadline\s*=\s*\(?\s*timeout\s*==\s*std::chrono::duration\s*<\s*Rep\s*,\s*Period\s*>::max\(\)", p) and \
       re.search(r"if\s*\(\s*!\s*no_deadline\s*\)\s*expiration\s*\+=\s*timeout\s*;", p):
        res["put_no_deadline"] = True
    elif re.search(r"expiration\s*=\s*std::chrono::system_clock::now\(\)\s*\+\s*timeout\s*;", p):
        res["put_no_deadline"] = False
    else:
        raise AnchorError("queue::put: neither the no-deadline branch nor 'expiration = now() + timeout' recognised")
    find1(r"full_\.wait_until\s*\(\s*lock\s*,\s*expiration\s*\)\s*==\s*std::cv_status::timeout", p, "put: wait_until(lock, expiration)")
    g = bodies["get"]
    if re.search(r"if\s*\(\s*timeout\s*==\s*std::chrono::duration\s*<\s*Rep\s*,\s*Period\s*>::max\(\)\s*\)\s*\{\s*empty_\.wait\s*\(\s*lock\s*\)\s*;", g):
        res["get_no_deadline"] = True
    else:
        res["get_no_deadline"] = False
    find1(r"empty_\.wait_for\s*\(\s*lock\s*,\s*timeout\s*\)\s*==\s*std::cv_status::timeout", g, "get: wait_for(lock, timeout)")
    find1(r"empty_\.wait_until\s*\(\s*lock\s*,\s*when\s*\)\s*==\s*std::cv_status::timeout", bodies["get_until"], "get_until: wait_until(lock, when)")
    c = bodies["close"]
    # the notification must be an unconditional statement of close(): directly preceded by ';', '{' or '}' (not by an if (...) or other guard)
    res["close_notify_all_full"] = bool(re.search(r"(?:^|[;{}])\s*full_\.notify_all\s*\(\s*\)\s*;", c))
    res["close_notify_all_empty"] = bool(re.search(r"(?:^|[;{}])\s*empty_\.notify_all\s*\(\s*\)\s*;", c))
    if not re.search(r"full_\.notify_(?:all|one)\s*\(\s*\)", c) or not re.search(r"empty_\.notify_(?:all|one)\s*\(\s*\)", c):
        raise AnchorError("queue::close: notification of full_/empty_ not found")
    # put()/get()/get_until() wake a waiter of the other side on EVERY successful push/pop (an unconditional statement,
    # not guarded by a size test): the model's LNotifyOne steps are unconditional
    res["put_notify_one_unconditional"] = bool(re.search(r"(?:^|[;{}])\s*empty_\.notify_one\s*\(\s*\)\s*;", bodies["put"]))
    res["get_notify_one_unconditional"] = bool(re.search(r"(?:^|[;{}])\s*full_\.notify_one\s*\(\s*\)\s*;", bodies["get"]))
    res["get_until_notify_one_unconditional"] = bool(re.search(r"(?:^|[;{}])\s*full_\.notify_one\s*\(\s*\)\s*;", bodies["get_until"]))
    find1(r"state_\s*=\s*\(\s*queue_\.empty\(\)\s*\?\s*State::CLOSED\s*:\s*State::CLOSING\s*\)\s*;", c, "close: state write")
    return res


def generate(repo):
    res = audit(repo)
    out = ["(* one boolean per audited fact of include/m17cxx/queue.h; the model ImplQueue.v is parameterised by them *)"]
    for k, v in res.items():
        out.append(f"Definition {k} : bool := {b(v)}.")
    # capacities at which the modem instantiates the queue (informative; theorems hold for every capacity >= 1)
    caps = []
    try:
        s = strip_cpp_comments(read(repo, "include/m17cxx/M17Modulator.h"))
        caps = [int(x) for x in re.findall(r"queue\s*<[^;{}]*?,\s*(\d+)\s*>", s)]
    except AnchorError:
        pass
    out.append("Definition instantiated_capacities : list nat := (" + " :: ".join(str(x) for x in caps) + (" :: " if caps else "") + "nil)%list.")
    return "\n".join(out) + "\n"
