"""PolynomialInterleaver template arguments: the defaults of the header and every instantiation the modem uses."""
from vlib import read, strip_cpp_comments, find1, findall, cint, AnchorError

INST = r"PolynomialInterleaver\s*<\s*([^,<>]+),\s*([^,<>]+),\s*([^,<>]+)>\s*%s\s*;"


def sites(repo):
    """[(site name, F1, F2, K)] — first the header defaults, then the decoder, the modulator, every one in m17-mod.cpp."""
    out = []
    h = strip_cpp_comments(read(repo, "include/m17cxx/PolynomialInterleaver.h"))
    m = find1(r"template\s*<\s*size_t\s+F1\s*=\s*([^,]+),\s*size_t\s+F2\s*=\s*([^,]+),\s*size_t\s+K\s*=\s*([^>]+)>\s*struct\s+PolynomialInterleaver",
              h, "PolynomialInterleaver template defaults")
    out.append(("default", cint(m.group(1)), cint(m.group(2)), cint(m.group(3))))
    s = strip_cpp_comments(read(repo, "include/m17cxx/M17FrameDecoder.h"))
    m = find1(INST % r"interleaver_", s, "PolynomialInterleaver instantiation in M17FrameDecoder.h")
    out.append(("decoder", cint(m.group(1)), cint(m.group(2)), cint(m.group(3))))
    s = strip_cpp_comments(read(repo, "include/m17cxx/M17Modulator.h"))
    m = find1(INST % r"interleaver_", s, "PolynomialInterleaver instantiation in M17Modulator.h")
    out.append(("modulator", cint(m.group(1)), cint(m.group(2)), cint(m.group(3))))
    s = strip_cpp_comments(read(repo, "apps/m17-mod.cpp"))
    for i, (a, b, c) in enumerate(findall(INST % r"interleaver", s, "PolynomialInterleaver instantiations in m17-mod.cpp")):
        out.append((f"mod{i}", cint(a), cint(b), cint(c)))
    # an instantiation written in any other form must not escape: count every textual use
    for rel in ("include/m17cxx/M17FrameDecoder.h", "include/m17cxx/M17Modulator.h", "apps/m17-mod.cpp"):
        s = strip_cpp_comments(read(repo, rel))
        uses = len(findall(r"PolynomialInterleaver\b(?!\.h)", s, f"PolynomialInterleaver uses in {rel}"))
        matched = len(findall(r"PolynomialInterleaver\s*<[^<>;]*>\s*\w+\s*;", s, f"PolynomialInterleaver declarations in {rel}"))
        if uses != matched:
            raise AnchorError(f"{rel}: {uses} uses of PolynomialInterleaver but {matched} recognised declarations")
    return out


def generate(repo):
    ss = sites(repo)
    out = ["From Coq Require Import NArith List.", "Import ListNotations.", ""]
    d = ss[0]
    out.append("(* template <size_t F1 = .., size_t F2 = .., size_t K = ..> struct PolynomialInterleaver *)")
    out.append(f"Definition il_default : N * N * N := ({d[1]}, {d[2]}, {d[3]})%N.")
    out.append("(* (F1, F2, K) at every place the modem instantiates the interleaver: " + ", ".join(s[0] for s in ss[1:]) + " *)")
    out.append("Definition il_sites : list (N * N * N) := [" + "; ".join(f"({a}, {b}, {c})" for _, a, b, c in ss[1:]) + "]%N.")
    dec = ss[1]
    out.append(f"Definition il_F1 : N := {dec[1]}%N.  (* M17FrameDecoder::interleaver_ *)")
    out.append(f"Definition il_F2 : N := {dec[2]}%N.")
    out.append(f"Definition il_K : N := {dec[3]}%N.")
    return "\n".join(out) + "\n"
