"""Literal offsets, sizes and masks of the receive-side application code that the C07/C20 models mention:
apps/m17-demod.cpp (dump_lsf, dump_type, demodulate_audio, decode_packet, decode_bert), ax25_frame.h,
M17Framer.h, M17FrameDecoder.h (LICH), ClockRecovery.h / M17Demodulator.h (samples per symbol),
LinkSetupFrame.h (callsign map), Util.h (PRBS9 history)."""
import re
from vlib import read, strip_cpp_comments, find1, findall, cint, AnchorError


def body_of(src, header_re, what):
    """text of the brace block following the first match of header_re"""
    m = find1(header_re, src, what)
    i = src.index("{", m.end() - 1) if src[m.end() - 1] != "{" else m.end() - 1
    depth, j = 0, i
    while j < len(src):
        if src[j] == "{":
            depth += 1
        elif src[j] == "}":
            depth -= 1
            if depth == 0:
                return src[i:j + 1]
        j += 1
    raise AnchorError(f"unbalanced braces after {what}")


def coq_string(s):
    return '"' + s.replace('"', '""') + '"'


def generate(repo):
    o = ["From Coq Require Import NArith ZArith List String.", "Import ListNotations.", "Local Open Scope string_scope.", ""]

    def N(name, v, note=""):
        o.append(f"Definition {name} : N := {int(v)}%N.{('  (* ' + note + ' *)') if note else ''}")

    def NAT(name, v, note=""):
        o.append(f"Definition {name} : nat := {int(v)}%nat.{('  (* ' + note + ' *)') if note else ''}")

    def Z(name, v, note=""):
        o.append(f"Definition {name} : Z := ({int(v)})%Z.{('  (* ' + note + ' *)') if note else ''}")

    # ------------------------------------------------------------------ apps/m17-demod.cpp
    d = strip_cpp_comments(read(repo, "apps/m17-demod.cpp"))
    o.append("(* ---- apps/m17-demod.cpp : dump_type *)")
    dt = body_of(d, r"void\s+dump_type\s*\(\s*uint16_t\s+type\s*\)\s*\{", "dump_type")
    m = find1(r"if\s*\(\s*type\s*&\s*(\w+)\s*\)\s*\{\s*std::cerr\s*<<\s*\"STR:\"", dt, "dump_type stream bit")
    N("dt_stream_mask", cint(m.group(1)))
    sw = findall(r"switch\s*\(\s*\(\s*type\s*&\s*(\w+)\s*\)\s*>>\s*(\w+)\s*\)", dt, "dump_type switches", min_count=2)
    if len(set(sw)) != 1:
        raise AnchorError("dump_type: the two switch expressions differ")
    N("dt_sub_mask", cint(sw[0][0])); N("dt_sub_shift", cint(sw[0][1]))
    labels = re.findall(r"case\s+(\d+)\s*:\s*std::cerr\s*<<\s*\"([^\"]*)\"", dt)
    if len(labels) != 8 or [int(a) for a, _ in labels] != [0, 1, 2, 3, 0, 1, 2, 3]:
        raise AnchorError("dump_type: expected 2 x 4 case labels")
    o.append("Definition dt_str_labels : list string := [" + "; ".join(coq_string(b) for _, b in labels[:4]) + "].")
    o.append("Definition dt_pkt_labels : list string := [" + "; ".join(coq_string(b) for _, b in labels[4:]) + "].")
    m = find1(r"\"\s*CAN:\"\s*<<\s*std::dec\s*<<\s*std::setw\((\d+)\)\s*<<\s*std::setfill\('(.)'\)\s*<<\s*int\(\(type\s*&\s*(\w+)\)\s*>>\s*(\w+)\)", dt, "dump_type CAN expression")
    NAT("dt_can_width", m.group(1)); N("dt_can_fill", ord(m.group(2))); N("dt_can_mask", cint(m.group(3))); N("dt_can_shift", cint(m.group(4)))

    o.append("(* ---- dump_lsf *)")
    dl = body_of(d, r"bool\s+dump_lsf\s*\(\s*std::array<T,\s*N>\s*const&\s*lsf\s*\)\s*\{", "dump_lsf")
    m = find1(r"std::copy\(lsf\.begin\(\)\s*\+\s*(\d+),\s*lsf\.begin\(\)\s*\+\s*(\d+),\s*encoded_call\.begin\(\)\);\s*auto\s+src", dl, "dump_lsf src copy")
    NAT("dl_src_lo", m.group(1)); NAT("dl_src_hi", m.group(2))
    m = find1(r"std::copy\(lsf\.begin\(\),\s*lsf\.begin\(\)\s*\+\s*(\d+),\s*encoded_call\.begin\(\)\);\s*auto\s+dest", dl, "dump_lsf dest copy")
    NAT("dl_dst_hi", m.group(1))
    m = find1(r"uint16_t\s+type\s*=\s*\(lsf\[(\d+)\]\s*<<\s*(\d+)\)\s*\|\s*lsf\[(\d+)\];", dl, "dump_lsf type")
    NAT("dl_type_hi_idx", m.group(1)); N("dl_type_shift", m.group(2)); NAT("dl_type_lo_idx", m.group(3))
    m = find1(r"for\s*\(size_t\s+i\s*=\s*(\d+);\s*i\s*!=\s*(\d+);\s*\+\+i\)\s*std::cerr\s*<<\s*std::hex\s*<<\s*std::setw\((\d+)\)", dl, "dump_lsf nonce loop")
    NAT("dl_nonce_lo", m.group(1)); NAT("dl_nonce_hi", m.group(2)); NAT("dl_nonce_width", m.group(3))
    m = find1(r"uint16_t\s+crc\s*=\s*\(lsf\[(\d+)\]\s*<<\s*(\d+)\)\s*\|\s*lsf\[(\d+)\];", dl, "dump_lsf crc")
    NAT("dl_crc_hi_idx", m.group(1)); NAT("dl_crc_lo_idx", m.group(3))
    m = find1(r"std::setw\((\d+)\)\s*<<\s*std::setfill\('0'\)\s*<<\s*crc", dl, "dump_lsf crc width")
    NAT("dl_crc_width", m.group(1))
    m = find1(r"if\s*\(\s*!\s*\(\s*lsf\[(\d+)\]\s*&\s*(\w+)\s*\)\s*\)", dl, "dump_lsf packet test (LSF type bit 0)")
    NAT("dl_pkt_idx", m.group(1)); N("dl_pkt_mask", cint(m.group(2)))
    m = find1(r"uint8_t\s+packet_type\s*=\s*\(lsf\[(\d+)\]\s*>>\s*(\w+)\)\s*&\s*(\w+);", dl, "dump_lsf packet_type")
    NAT("dl_ptype_idx", m.group(1)); N("dl_ptype_shift", cint(m.group(2))); N("dl_ptype_mask", cint(m.group(3)))
    cases = re.findall(r"case\s+(\d+)\s*:", dl)
    if cases != ["1", "2"]:
        raise AnchorError("dump_lsf: expected cases 1 (RAW) and 2 (ENCAPSULATED)")
    m = find1(r"default:\s*std::cerr\s*<<\s*\"([^\"]*)\"\s*<<\s*std::endl;\s*append_packet", dl, "dump_lsf reserved-type diagnostic")
    o.append(f"Definition dl_reserved_msg : string := {coq_string(m.group(1))}.")
    o.append("(* ---- append_packet *)")
    ap = body_of(d, r"void\s+append_packet\s*\(std::vector<uint8_t>&\s*result,\s*std::array<T,\s*N>\s*in\)\s*\{", "append_packet")
    m = find1(r"out\s*=\s*\(out\s*<<\s*1\)\s*\|\s*c;\s*if\s*\(\+\+b\s*==\s*(\d+)\)", ap, "append_packet group size")
    NAT("ap_group", m.group(1))

    o.append("(* ---- demodulate_audio *)")
    da = body_of(d, r"bool\s+demodulate_audio\s*\([^)]*\)\s*\{", "demodulate_audio")
    m = find1(r"std::array<int16_t,\s*(\d+)>\s+buf;", da, "audio buf size")
    NAT("da_buf_samples", m.group(1))
    m = find1(r"if\s*\(viterbi_cost\s*<\s*(\d+)\s*&&\s*\(audio\[(\d+)\]\s*&\s*(\w+)\)\)", da, "EOS test")
    Z("da_eos_cost", m.group(1)); NAT("da_eos_idx", m.group(2)); N("da_eos_mask", cint(m.group(3)))
    m = find1(r"if\s*\(display_lsf\)\s*std::cerr\s*<<\s*\"\\nEOS\"\s*<<\s*std::endl;\s*result\s*=\s*false;", da, "EOS report")
    m = find1(r"if\s*\(noise_blanker\s*&&\s*viterbi_cost\s*>\s*(\d+)\)", da, "noise blanker test")
    Z("da_blank_cost", m.group(1))
    w = findall(r"std::cout\.write\(\(const char\*\)buf\.data\(\),\s*(\d+)\);", da, "audio writes", min_count=1)
    if len(w) != 4 or len(set(w)) != 1:
        raise AnchorError(f"demodulate_audio: expected four equal cout.write sizes, found {w}")
    NAT("da_write_bytes", w[0]); NAT("da_writes_per_frame", 2)
    offs = findall(r"codec2_decode\(codec2,\s*buf\.data\(\),\s*audio\.data\(\)\s*\+\s*(\d+)\);", da, "codec2_decode offsets", min_count=2)
    if len(offs) != 2:
        raise AnchorError("demodulate_audio: expected two codec2_decode calls")
    NAT("da_off1", offs[0]); NAT("da_off2", offs[1])
    NAT("codec2_frame_bytes", 8, "libcodec2 mode 3200: 64 bits per 20 ms frame (checked by the harness against codec2_bits_per_frame)")

    o.append("(* ---- decode_packet / decode_full_packet *)")
    for fn, tag in (("decode_packet", "dp"), ("decode_full_packet", "dfp")):
        b = body_of(d, r"bool\s+%s\s*\([^)]*\)\s*\{" % fn, fn)
        m = find1(r"if\s*\(packet_segment\[(\d+)\]\s*&\s*(\w+)\)", b, f"{fn} EOF test")
        NAT(f"{tag}_ctl_idx", m.group(1)); N(f"{tag}_eof_mask", cint(m.group(2)))
        ms = findall(r"\(packet_segment\[(\d+)\]\s*&\s*(\w+)\)\s*>>\s*(\w+)", b, f"{fn} counter field", min_count=2)
        if len(set(ms)) != 1 or ms[0][0] != m.group(1):
            raise AnchorError(f"{fn}: counter-field expressions differ")
        N(f"{tag}_cnt_mask", cint(ms[0][1])); N(f"{tag}_cnt_shift", cint(ms[0][2]))
        mm = re.search(r"packet_size\s*=\s*std::min\(packet_size,\s*size_t\((\d+)\)\);", b)
        # the clamp is what keeps the copy inside the 26-byte segment; when it is gone the model reads up to the raw field
        N(f"{tag}_size_clamp", mm.group(1) if mm else 0xFFFF, "std::min(packet_size, size_t(..))" if mm else "NO clamp in the source")
        m = find1(r"for\s*\(size_t\s+i\s*=\s*0;\s*i\s*!=\s*(\d+);\s*\+\+i\)\s*\{\s*current_packet\.push_back\(packet_segment\[i\]\);", b, f"{fn} full-frame copy")
        NAT(f"{tag}_full_bytes", m.group(1))
        fr = re.search(r"&\s*current_packet\.front\(\)", b)
        o.append(f"Definition {tag}_uses_front : bool := {'true' if fr else 'false'}.  (* &current_packet.front() instead of .data() *)")
    b = body_of(d, r"bool\s+decode_packet\s*\([^)]*\)\s*\{", "decode_packet")
    m = find1(r"boost::crc_optimal<(\d+),\s*(\w+),\s*(\w+),\s*(\w+),\s*(\w+),\s*(\w+)>\s*crc;", b, "packet CRC type")
    if (m.group(1), m.group(5), m.group(6)) != ("16", "true", "true"):
        raise AnchorError("decode_packet: CRC is no longer a reflected 16-bit CRC")
    N("dp_crc_poly", cint(m.group(2))); N("dp_crc_init", cint(m.group(3))); N("dp_crc_xorout", cint(m.group(4)))
    m = find1(r"if\s*\(\s*\w+\s*==\s*(0[xX][0-9a-fA-F]+)\s*\)", b, "packet CRC residue")
    N("dp_crc_residue", cint(m.group(1)))
    hf = body_of(d, r"bool\s+handle_frame\s*\([^)]*\)\s*\{", "handle_frame")
    m = find1(r"case\s+FrameType::BASIC_PACKET:\s*result\s*=\s*(\w+)\(frame\.packet\);", hf, "handle_frame BASIC_PACKET")
    m2 = find1(r"case\s+FrameType::FULL_PACKET:\s*result\s*=\s*(\w+)\(frame\.packet\);", hf, "handle_frame FULL_PACKET")
    o.append(f"Definition hf_basic_uses_full : bool := {'true' if m.group(1) == 'decode_full_packet' else 'false'}.")
    o.append(f"Definition hf_full_uses_full : bool := {'true' if m2.group(1) == 'decode_full_packet' else 'false'}.")
    find1(r"case\s+FrameType::LICH:\s*std::cerr\s*<<\s*\"\\nLICH\"\s*<<\s*std::endl;", hf, "handle_frame LICH line")

    o.append("(* ---- decode_bert *)")
    b = body_of(d, r"bool\s+decode_bert\s*\([^)]*\)\s*\{", "decode_bert")
    m = find1(r"for\s*\(int\s+j\s*=\s*0;\s*j\s*!=\s*(\d+);\s*\+\+j\)\s*\{\s*auto\s+b\s*=\s*bert\[j\];\s*for\s*\(int\s+i\s*=\s*0;\s*i\s*!=\s*(\d+);", b, "decode_bert full bytes")
    NAT("db_full_bytes", m.group(1)); NAT("db_bits_per_byte", m.group(2))
    m = find1(r"auto\s+b\s*=\s*bert\[(\d+)\];\s*for\s*\(int\s+i\s*=\s*0;\s*i\s*!=\s*(\d+);", b, "decode_bert tail")
    NAT("db_tail_idx", m.group(1)); NAT("db_tail_bits", m.group(2))
    m = find1(r"prbs\.validate\(b\s*&\s*(\w+)\)", b, "decode_bert bit mask")
    N("db_bit_mask", cint(m.group(1)))

    # ------------------------------------------------------------------ Util.h PRBS9 (history indexing only)
    u = strip_cpp_comments(read(repo, "include/m17cxx/Util.h"))
    p = body_of(u, r"struct\s+PRBS9\s*\{", "PRBS9")
    o.append("(* ---- Util.h : PRBS9 *)")
    for nm in ("MASK", "TAP_1", "TAP_2", "LOCK_COUNT", "UNLOCK_COUNT"):
        m = find1(r"static\s+constexpr\s+uint\d+_t\s+%s\s*=\s*(\w+)\s*;" % nm, p, f"PRBS9::{nm}")
        N(f"prbs_{nm}", cint(m.group(1)))
    m = find1(r"std::array<uint8_t,\s*(\d+)>\s+history;", p, "PRBS9 history size")
    NAT("prbs_history_bytes", m.group(1))
    m = find1(r"if\s*\(\+\+hist_pos\s*==\s*(\d+)\)\s*hist_pos\s*=\s*0;", p, "PRBS9 hist_pos wrap")
    NAT("prbs_hist_wrap", m.group(1))
    m = find1(r"history\[hist_pos\s*>>\s*(\d+)\]\s*&\s*\(1\s*<<\s*\(hist_pos\s*&\s*(\d+)\)\)", p, "PRBS9 history index expression")
    NAT("prbs_hist_shift", m.group(1)); N("prbs_hist_bitmask", m.group(2))

    # ------------------------------------------------------------------ ax25_frame.h
    a = strip_cpp_comments(read(repo, "include/m17cxx/ax25_frame.h"))
    o.append("(* ---- ax25_frame.h *)")
    for nm in ("DEST_ADDRESS_POS", "SRC_ADDRESS_POS", "LAST_ADDRESS_POS", "FIRST_REPEATER_POS", "ADDRESS_LENGTH"):
        m = find1(r"static\s+const\s+std::string::size_type\s+%s\s*=\s*(\d+)\s*;" % nm, a, f"ax25 {nm}")
        NAT("ax_" + nm, m.group(1))
    pr = body_of(a, r"void\s+parse\s*\(const\s+std::string&\s*frame\)\s*\{", "ax25 parse")
    m = find1(r"if\s*\(frame\.length\(\)\s*<\s*(\d+)\)\s*return;", pr, "ax25 minimum length guard")
    NAT("ax_min_len", m.group(1))
    m = find1(r"size_t\s+index\s*=\s*ADDRESS_LENGTH\s*\*\s*\(repeaters_\.size\(\)\s*\+\s*(\d+)\);\s*if\s*\(frame\.length\(\)\s*<\s*index\s*\+\s*(\d+)\)\s*return;", pr, "ax25 control-field length guard")
    NAT("ax_addr_count_base", m.group(1)); NAT("ax_ctl_guard", m.group(2))
    m = find1(r"info_\.assign\(frame\.begin\(\)\s*\+\s*index,\s*frame\.end\(\)\s*-\s*(\d+)\);", pr, "ax25 info range")
    NAT("ax_fcs_len", m.group(1))
    fx = body_of(a, r"static\s+bool\s+fixup_address\s*\(std::string&\s*address\)\s*\{", "fixup_address")
    m = find1(r"bool\s+result\s*=\s*\(address\[ADDRESS_LENGTH\s*-\s*1\]\s*&\s*(\d+)\)\s*==\s*0;", fx, "address extension bit test")
    N("ax_ext_mask", m.group(1))
    m = find1(r"if\s*\(pos\s*==\s*std::string::npos\)\s*pos\s*=\s*(\d+);\s*address\.erase\(pos\);", fx, "fixup erase position")
    NAT("ax_call_len", m.group(1))
    gs = body_of(a, r"static\s+int\s+getSSID\s*\(const\s+std::string&\s*address\)\s*\{", "getSSID")
    m = find1(r"return\s*\(address\[(\d+)\]\s*&\s*(\w+)\);", gs, "getSSID expression")
    NAT("ax_ssid_idx", m.group(1)); N("ax_ssid_mask", cint(m.group(2)))
    rp = body_of(a, r"static\s+repeaters_type\s+parse_repeaters\s*\(const\s+std::string&\s*frame\)\s*\{", "parse_repeaters")
    g = findall(r"\(index\s*\+\s*ADDRESS_LENGTH\)\s*(<=?)\s*frame\.length\(\)", rp, "parse_repeaters length guards", min_count=2)
    if len(g) != 2 or len(set(g)) != 1:
        raise AnchorError("parse_repeaters: expected two identical length guards")
    o.append(f"Definition ax_rep_guard_strict : bool := {'true' if g[0] == '<' else 'false'}.  (* (index + ADDRESS_LENGTH) {g[0]} frame.length() *)")
    pf = body_of(a, r"static\s+uint16_t\s+parse_fcs\s*\(const\s+std::string&\s*frame\)\s*\{", "parse_fcs")
    m = find1(r"size_t\s+checksum_pos\s*=\s*frame\.size\(\)\s*-\s*(\d+);", pf, "parse_fcs position")
    NAT("ax_fcs_back", m.group(1))

    # ------------------------------------------------------------------ M17Framer.h / M17FrameDecoder.h / demodulator
    f = strip_cpp_comments(read(repo, "include/m17cxx/M17Framer.h"))
    o.append("(* ---- M17Framer.h, M17FrameDecoder.h, M17Demodulator.h, ClockRecovery.h *)")
    m = find1(r"template\s*<size_t\s+N\s*=\s*(\d+)>\s*struct\s+M17Framer", f, "M17Framer default size")
    dm = strip_cpp_comments(read(repo, "include/m17cxx/M17Demodulator.h"))
    m2 = find1(r"M17Framer<(\d+)>\s+framer;", dm, "framer instantiation in the demodulator")
    if m.group(1) != m2.group(1):
        raise AnchorError("framer size differs between default and instantiation")
    NAT("framer_size", m2.group(1))
    llr = body_of(f, r"size_t\s+operator\(\)\(std::tuple<int8_t,\s*int8_t>\s+symbol,\s*int8_t\*\*\s*result\)\s*\{", "M17Framer LLR operator()")
    if len(re.findall(r"buffer_\[index_\+\+\]\s*=", llr)) != 2:
        raise AnchorError("M17Framer LLR operator(): expected two stores through index_++")
    rs = re.search(r"if\s*\(index_\s*==\s*N\)\s*\{\s*index_\s*=\s*0;", llr)
    o.append(f"Definition framer_resets_index : bool := {'true' if rs else 'false'}.  (* if (index_ == N) index_ = 0; *)")
    fd = strip_cpp_comments(read(repo, "include/m17cxx/M17FrameDecoder.h"))
    m = find1(r"static\s+constexpr\s+size_t\s+MAX_LICH_FRAGMENT\s*=\s*(\d+);", fd, "MAX_LICH_FRAGMENT")
    N("max_lich_fragment", m.group(1))
    for nm, key in (("lsf_buffer_t", "lsf_bytes"), ("lich_buffer_t", "lich_bytes"), ("audio_buffer_t", "audio_bytes"),
                    ("packet_buffer_t", "packet_bytes"), ("bert_buffer_t", "bert_bytes")):
        m = find1(r"using\s+%s\s*=\s*std::array<uint8_t,\s*(\d+)>;" % nm, fd, nm)
        NAT(key, m.group(1))
    m = find1(r"using\s+input_buffer_t\s*=\s*std::array<int8_t,\s*(\d+)>;", fd, "input_buffer_t")
    NAT("input_bits", m.group(1))
    dlh = body_of(fd, r"DecodeResult\s+decode_lich\s*\([^)]*\)\s*\{", "decode_lich")
    m = find1(r"uint8_t\s+fragment_number\s*=\s*output_buffer\.lich\[(\d+)\];\s*fragment_number\s*=\s*\(fragment_number\s*>>\s*(\d+)\)\s*&\s*(\d+);", dlh, "fragment number extraction")
    NAT("lich_fn_idx", m.group(1)); N("lich_fn_shift", m.group(2)); N("lich_fn_mask", m.group(3))
    g = re.search(r"if\s*\(fragment_number\s*>\s*MAX_LICH_FRAGMENT\)", dlh)
    c = find1(r"std::copy\(output_buffer\.lich\.begin\(\),\s*output_buffer\.lich\.begin\(\)\s*\+\s*(\d+),\s*output_buffer\.lsf\.begin\(\)\s*\+\s*\(fragment_number\s*\*\s*(\d+)\)\);", dlh, "LICH copy")
    NAT("lich_copy_len", c.group(1)); NAT("lich_copy_stride", c.group(2))
    guard_first = bool(g) and g.start() < c.start()
    o.append(f"Definition lich_guard_before_copy : bool := {'true' if guard_first else 'false'}.")
    ul = body_of(fd, r"bool\s+unpack_lich\s*\(input_buffer_t&\s*buffer\)\s*\{", "unpack_lich")
    m = find1(r"for\s*\(size_t\s+i\s*=\s*0;\s*i\s*!=\s*(\d+);\s*\+\+i\).*?for\s*\(size_t\s+j\s*=\s*0;\s*j\s*!=\s*(\d+);\s*\+\+j\).*?buffer\[i\s*\*\s*(\d+)\s*\+\s*j\]", ul, "unpack_lich loops")
    NAT("ul_words", m.group(1)); NAT("ul_word_bits", m.group(2)); NAT("ul_word_stride", m.group(3))
    m = find1(r"decoded\s*>>=\s*(\d+);", ul, "unpack_lich check-bit shift")
    N("ul_check_shift", m.group(1))
    m = find1(r"static\s+constexpr\s+uint16_t\s+SAMPLE_RATE\s*=\s*(\d+);", dm, "SAMPLE_RATE")
    m2 = find1(r"static\s+constexpr\s+uint16_t\s+SYMBOL_RATE\s*=\s*(\d+);", dm, "SYMBOL_RATE")
    find1(r"static\s+constexpr\s+uint16_t\s+SAMPLES_PER_SYMBOL\s*=\s*SAMPLE_RATE\s*/\s*SYMBOL_RATE;", dm, "SAMPLES_PER_SYMBOL")
    find1(r"ClockRecovery<FloatType,\s*SAMPLES_PER_SYMBOL>\s+clock_recovery;", dm, "clock_recovery instantiation")
    Z("samples_per_symbol", int(m.group(1)) // int(m2.group(1)))
    cr = strip_cpp_comments(read(repo, "include/m17cxx/ClockRecovery.h"))
    pat = (r"sample_index_\s*=\s*int8_t\(round\((\w+)\)\);\s*"
           r"sample_index_\s*=\s*sample_index_\s*<\s*0\s*\?\s*sample_index_\s*\+\s*SamplesPerSymbol\s*:\s*sample_index_;\s*"
           r"sample_index_\s*=\s*sample_index_\s*>=\s*int8_t\(SamplesPerSymbol\)\s*\?\s*sample_index_\s*-\s*SamplesPerSymbol\s*:\s*sample_index_;")
    ms = findall(pat, cr, "ClockRecovery post-processing (round, +N if <0, -N if >=N)", min_count=2)
    if ms != ["sample_estimate_", "csw"]:
        raise AnchorError(f"ClockRecovery: post-processing sites are {ms}")
    find1(r"int8_t\s+sample_index_\s*=\s*0;", cr, "sample_index_ is int8_t")
    find1(r"auto\s+csw\s*=\s*std::fmod\(\(sample_estimate_\s*\+\s*clock_estimate_\s*\*\s*count_\),\s*SamplesPerSymbol\);\s*"
          r"if\s*\(csw\s*<\s*0\.\)\s*csw\s*\+=\s*SamplesPerSymbol;\s*else\s+if\s*\(csw\s*>=\s*SamplesPerSymbol\)\s*csw\s*-=\s*SamplesPerSymbol;", cr, "ClockRecovery::update() fmod wrap")

    # ------------------------------------------------------------------ LinkSetupFrame.h
    l = strip_cpp_comments(read(repo, "include/m17cxx/LinkSetupFrame.h"))
    o.append("(* ---- LinkSetupFrame.h : decode_callsign *)")
    dc = body_of(l, r"static\s+call_t\s+decode_callsign\s*\(encoded_call_t\s+callsign,\s*bool\s+strict\s*=\s*false\)\s*\{", "decode_callsign")
    m = find1(r"static\s+const\s+char\s+callsign_map\[\]\s*=\s*\"([^\"]*)\";", dc, "callsign_map")
    o.append(f"Definition callsign_map : string := {coq_string(m.group(1))}.")
    m = find1(r"using\s+call_t\s*=\s*std::array<char,\s*(\d+)>;", l, "call_t")
    NAT("call_chars", m.group(1))
    m = find1(r"using\s+encoded_call_t\s*=\s*std::array<uint8_t,\s*(\d+)>;", l, "encoded_call_t")
    NAT("call_bytes", m.group(1))
    m = find1(r"BROADCAST_ADDRESS\s*=\s*\{([^}]*)\};", l, "BROADCAST_ADDRESS")
    o.append("Definition broadcast_address : list N := [" + "; ".join(str(cint(x)) for x in m.group(1).split(",")) + "]%N.")
    m = find1(r"BROADCAST_CALL\s*=\s*\{([^}]*)\};", l, "BROADCAST_CALL")
    chars = []
    for x in m.group(1).split(","):
        x = x.strip()
        chars.append(ord(x[1]) if x.startswith("'") else cint(x))
    o.append("Definition broadcast_call : list N := [" + "; ".join(map(str, chars)) + "]%N.")
    bounded = re.search(r"while\s*\(encoded\s*&&\s*index\s*!=\s*result\.size\(\)\s*-\s*1\)", dc)
    unbounded = re.search(r"while\s*\(encoded\)", dc)
    if not bounded and not unbounded:
        raise AnchorError("decode_callsign: loop condition not recognised")
    o.append(f"Definition callsign_loop_bounded : bool := {'true' if bounded else 'false'}.  (* while (encoded && index != result.size() - 1) *)")
    m = find1(r"callsign_map\[encoded\s*%\s*(\d+)\];\s*encoded\s*/=\s*(\d+);", dc, "base-40 digit extraction")
    if m.group(1) != m.group(2):
        raise AnchorError("decode_callsign: % and / use different bases")
    N("callsign_base", m.group(1))
    return "\n".join(o) + "\n"
