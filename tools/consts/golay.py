"""Golay24.h: POLY, LUT_SIZE, VECLEN, every loop bound, shift and mask that ImplGolay.v mentions.

Every statement of the modelled functions is anchored by a regular expression on the comment-stripped source;
the numbers inside are extracted, the shape around them must match (AnchorError otherwise = broken tie)."""
import re
from vlib import read, strip_cpp_comments, find1, findall, cint, AnchorError

REL = "include/m17cxx/Golay24.h"
INT = r"(0[xX][0-9a-fA-F]+|\d+)[uUlL]*"


def body(src, header_pat, what):
    """text of the brace-balanced block following the first match of header_pat"""
    m = find1(header_pat, src, what)
    i = src.find("{", m.end() - 1)
    if i < 0:
        raise AnchorError(f"no body for {what}")
    depth, j = 0, i
    while j < len(src):
        if src[j] == "{":
            depth += 1
        elif src[j] == "}":
            depth -= 1
            if depth == 0:
                return src[i:j + 1]
        j += 1
    raise AnchorError(f"unbalanced body for {what}")


def veclen_expr(tok, what):
    """'VECLEN' or 'VECLEN - k' -> k"""
    m = re.fullmatch(r"VECLEN(?:\s*-\s*(\d+))?", tok.strip())
    if not m:
        raise AnchorError(f"loop bound is not VECLEN - k: {what}: {tok!r}")
    return int(m.group(1) or 0)


def generate(repo):
    h = strip_cpp_comments(read(repo, REL))
    out = ["From Coq Require Import NArith List.", "Import ListNotations.", ""]

    def N(name, val, note=""):
        out.append(f"Definition golay_{name} : N := {val}%N." + (f"  (* {note} *)" if note else ""))

    def NAT(name, val, note=""):
        out.append(f"Definition golay_{name} : nat := {val}%nat." + (f"  (* {note} *)" if note else ""))

    m = find1(r"constexpr\s+uint16_t\s+POLY\s*=\s*" + INT + r"\s*;", h, "Golay24::POLY")
    N("POLY", cint(m.group(1)))
    m = find1(r"constexpr\s+size_t\s+LUT_SIZE\s*=\s*" + INT + r"\s*;", h, "Golay24::LUT_SIZE")
    NAT("LUT_SIZE", cint(m.group(1)))

    # ---- syndrome()
    b = body(h, r"constexpr\s+uint32_t\s+syndrome\s*\(\s*uint32_t\s+codeword\s*\)\s*\{", "syndrome()")
    m = find1(r"\{\s*codeword\s*&=\s*" + INT + r"\s*;\s*for\s*\(\s*size_t\s+i\s*=\s*0\s*;\s*i\s*!=\s*(\d+)\s*;\s*\+\+i\s*\)\s*"
              r"\{\s*if\s*\(\s*codeword\s*&\s*1\s*\)\s*codeword\s*\^=\s*POLY\s*;\s*codeword\s*>>=\s*1\s*;\s*\}\s*"
              r"return\s*\(\s*codeword\s*<<\s*(\d+)\s*\)\s*;\s*\}", b, "syndrome() body")
    N("syn_mask", cint(m.group(1)), "codeword &= ...")
    NAT("syn_steps", int(m.group(2)))
    N("syn_shift", int(m.group(3)), "return codeword << ...")

    # parity(): no constant; its body is covered by the differential run only (so that e.g. an xor-folding rewrite is silent)

    # ---- SyndromeMapEntry packing
    b = body(h, r"constexpr\s+SyndromeMapEntry\s+makeSyndromeMapEntry\s*\(\s*uint64_t\s+val\s*\)\s*\{", "makeSyndromeMapEntry()")
    m = find1(r"return\s+SyndromeMapEntry\s*\{\s*uint32_t\s*\(\s*val\s*>>\s*(\d+)\s*\)\s*,\s*uint16_t\s*\(\s*val\s*&\s*" + INT + r"\s*\)\s*\}\s*;", b,
              "makeSyndromeMapEntry() body")
    N("entry_a_shift", int(m.group(1)))
    N("entry_b_mask", cint(m.group(2)))
    b = body(h, r"constexpr\s+uint64_t\s+makeSME\s*\(\s*uint64_t\s+syndrome\s*,\s*uint32_t\s+bits\s*\)\s*\{", "makeSME()")
    m = find1(r"return\s*\(\s*syndrome\s*<<\s*(\d+)\s*\)\s*\|\s*\(\s*bits\s*&\s*" + INT + r"\s*\)\s*;", b, "makeSME() body")
    N("sme_shift", int(m.group(1)))
    N("sme_mask", cint(m.group(2)))

    # ---- make_lut(): enumeration of the patterns of weight 0..3
    b = body(h, r"constexpr\s+std::array\s*<\s*SyndromeMapEntry\s*,\s*LUT_SIZE\s*>\s+make_lut\s*\(\s*\)\s*\{", "make_lut()")
    m = find1(r"constexpr\s+size_t\s+VECLEN\s*=\s*(\d+)\s*;", b, "VECLEN")
    NAT("VECLEN", int(m.group(1)))
    find1(r"detail::array\s*<\s*uint64_t\s*,\s*LUT_SIZE\s*>\s+result\s*\{\s*\}\s*;\s*size_t\s+index\s*=\s*0\s*;\s*"
          r"result\s*\[\s*index\+\+\s*\]\s*=\s*makeSME\s*\(\s*syndrome\s*\(\s*0\s*\)\s*,\s*0\s*\)\s*;", b, "make_lut: weight-0 row")
    store = r"result\s*\[\s*index\+\+\s*\]\s*=\s*makeSME\s*\(\s*syndrome\s*\(\s*v\s*\)\s*,\s*v\s*\)\s*;"
    FOR0 = r"for\s*\(\s*size_t\s+%s\s*=\s*0\s*;\s*%s\s*!=\s*([^;]+);\s*\+\+%s\s*\)"
    FORN = r"for\s*\(\s*size_t\s+%s\s*=\s*%s\s*\+\s*1\s*;\s*%s\s*!=\s*([^;]+);\s*\+\+%s\s*\)"
    m1 = find1(FOR0 % ("i", "i", "i") + r"\s*\{\s*auto\s+v\s*=\s*\(\s*1\s*<<\s*i\s*\)\s*;\s*" + store + r"\s*\}", b, "make_lut: weight-1 loop")
    m2 = find1(FOR0 % ("i", "i", "i") + r"\s*\{\s*" + FORN % ("j", "i", "j", "j") +
               r"\s*\{\s*auto\s+v\s*=\s*\(\s*1\s*<<\s*i\s*\)\s*\|\s*\(\s*1\s*<<\s*j\s*\)\s*;\s*" + store + r"\s*\}\s*\}", b, "make_lut: weight-2 loops")
    m3 = find1(FOR0 % ("i", "i", "i") + r"\s*\{\s*" + FORN % ("j", "i", "j", "j") + r"\s*\{\s*" + FORN % ("k", "j", "k", "k") +
               r"\s*\{\s*auto\s+v\s*=\s*\(\s*1\s*<<\s*i\s*\)\s*\|\s*\(\s*1\s*<<\s*j\s*\)\s*\|\s*\(\s*1\s*<<\s*k\s*\)\s*;\s*" + store +
               r"\s*\}\s*\}\s*\}", b, "make_lut: weight-3 loops")
    NAT("w1_i_off", veclen_expr(m1.group(1), "weight-1 i"), "for (i = 0; i != VECLEN - off; ++i)")
    NAT("w2_i_off", veclen_expr(m2.group(1), "weight-2 i"))
    NAT("w2_j_off", veclen_expr(m2.group(2), "weight-2 j"))
    NAT("w3_i_off", veclen_expr(m3.group(1), "weight-3 i"))
    NAT("w3_j_off", veclen_expr(m3.group(2), "weight-3 j"))
    NAT("w3_k_off", veclen_expr(m3.group(3), "weight-3 k"))
    find1(r"result\s*=\s*detail::sort\s*\(\s*result\s*\)\s*;\s*std::array\s*<\s*SyndromeMapEntry\s*,\s*LUT_SIZE\s*>\s+tmp\s*;\s*"
          r"for\s*\(\s*size_t\s+i\s*=\s*0\s*;\s*i\s*!=\s*LUT_SIZE\s*;\s*\+\+i\s*\)\s*\{\s*tmp\s*\[\s*i\s*\]\s*=\s*makeSyndromeMapEntry\s*\(\s*result\s*\[\s*i\s*\]\s*\)\s*;\s*\}\s*"
          r"return\s+tmp\s*;", b, "make_lut: sort + packing")
    find1(r"inline\s+constexpr\s+auto\s+LUT\s*=\s*make_lut\s*\(\s*\)\s*;", h, "LUT")
    # detail::sort is not anchored: the model sorts the (distinct) keys with its own verified sort and the
    # run-time dump of the C++ LUT is compared row by row, so any correct ascending sort is accepted.

    # ---- encode23 / encode24
    b = body(h, r"constexpr\s+uint32_t\s+encode23\s*\(\s*uint16_t\s+data\s*\)\s*\{", "encode23()")
    m = find1(r"\{\s*uint32_t\s+codeword\s*=\s*data\s*;\s*for\s*\(\s*size_t\s+i\s*=\s*0\s*;\s*i\s*!=\s*(\d+)\s*;\s*\+\+i\s*\)\s*"
              r"\{\s*if\s*\(\s*codeword\s*&\s*1\s*\)\s*codeword\s*\^=\s*POLY\s*;\s*codeword\s*>>=\s*1\s*;\s*\}\s*"
              r"return\s+codeword\s*\|\s*\(\s*data\s*<<\s*(\d+)\s*\)\s*;\s*\}", b, "encode23() body")
    NAT("enc_steps", int(m.group(1)))
    N("enc_data_shift", int(m.group(2)))
    b = body(h, r"constexpr\s+uint32_t\s+encode24\s*\(\s*uint16_t\s+data\s*\)\s*\{", "encode24()")
    m = find1(r"\{\s*auto\s+codeword\s*=\s*encode23\s*\(\s*data\s*\)\s*;\s*return\s*\(\s*\(\s*codeword\s*<<\s*(\d+)\s*\)\s*\|\s*parity\s*\(\s*codeword\s*\)\s*\)\s*;\s*\}",
              b, "encode24() body")
    N("enc24_shift", int(m.group(1)))

    # ---- decode
    b = body(h, r"bool\s+decode\s*\(\s*uint32_t\s+input\s*,\s*uint32_t\s*&\s*output\s*\)\s*\{", "decode()")
    m = find1(r"auto\s+syndrm\s*=\s*syndrome\s*\(\s*input\s*>>\s*(\d+)\s*\)\s*;", b, "decode: syndrome of input >> 1")
    N("dec_in_shift", int(m.group(1)))
    m = find1(r"auto\s+it\s*=\s*std::lower_bound\s*\(\s*LUT\.begin\s*\(\s*\)\s*,\s*LUT\.end\s*\(\s*\)\s*,\s*syndrm\s*,\s*"
              r"\[\s*\]\s*\(\s*const\s+SyndromeMapEntry\s*&\s*sme\s*,\s*uint32_t\s+val\s*\)\s*\{\s*"
              r"return\s*\(\s*sme\.a\s*>>\s*(\d+)\s*\)\s*<\s*val\s*;\s*\}\s*\)\s*;", b, "decode: lower_bound with comparator (sme.a >> 8) < val")
    N("dec_cmp_shift", int(m.group(1)))
    m = find1(r"if\s*\(\s*\(\s*it->a\s*>>\s*(\d+)\s*\)\s*==\s*syndrm\s*\)", b, "decode: (it->a >> 8) == syndrm")
    N("dec_eq_shift", int(m.group(1)))
    m = find1(r"auto\s+correction\s*=\s*\(\s*\(\s*\(\s*\(\s*it->a\s*&\s*" + INT + r"\s*\)\s*<<\s*(\d+)\s*\)\s*\|\s*it->b\s*\)\s*<<\s*(\d+)\s*\)\s*;", b,
              "decode: correction assembly")
    N("dec_corr_mask", cint(m.group(1)))
    N("dec_corr_shift_a", int(m.group(2)))
    N("dec_corr_shift", int(m.group(3)))
    find1(r"output\s*=\s*input\s*\^\s*correction\s*;", b, "decode: output = input ^ correction")
    m = find1(r"return\s+std::popcount\s*\(\s*correction\s*\)\s*<\s*(\d+)\s*\|\|\s*!\s*parity\s*\(\s*output\s*\)\s*;\s*\}\s*return\s+false\s*;", b,
              "decode: acceptance rule  popcount(correction) < 3 || !parity(output)")
    N("dec_accept_weight", int(m.group(1)))
    return "\n".join(out) + "\n"
