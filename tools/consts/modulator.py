"""Constants of include/m17cxx/M17Modulator.h (and of the helpers it calls) that ImplModulator.v mentions.

Everything is read from the repository's current text by anchored regular expressions; an anchor that no
longer matches raises AnchorError (reported by the check as a broken tie)."""
import re
from vlib import read, strip_cpp_comments, find1, findall, cint, AnchorError


def body_of(h, header_re, what):
    """text of the brace-balanced body that follows the first match of header_re"""
    m = find1(header_re, h, what)
    i = h.find("{", m.end() - 1)
    if i < 0:
        raise AnchorError(f"no body for {what}")
    depth, j = 0, i
    while j < len(h):
        if h[j] == "{":
            depth += 1
        elif h[j] == "}":
            depth -= 1
            if depth == 0:
                return h[i + 1:j]
        j += 1
    raise AnchorError(f"unbalanced body for {what}")


def ints(xs):
    return "[" + "; ".join(str(int(x)) for x in xs) + "]"


def generate(repo):
    h = strip_cpp_comments(read(repo, "include/m17cxx/M17Modulator.h"))
    out = ["From Coq Require Import NArith ZArith List Bool.", "Import ListNotations.", ""]

    def D(name, typ, val, comment=None):
        out.append(f"Definition {name} : {typ} := {val}." + (f"  (* {comment} *)" if comment else ""))

    # ---- types / queues
    m = find1(r"using\s+bitstream_queue_t\s*=\s*queue<\s*uint8_t\s*,\s*(\d+)\s*>", h, "bitstream_queue_t")
    D("bitstream_queue_capacity", "nat", int(m.group(1)))
    m = find1(r"using\s+audio_queue_t\s*=\s*queue<\s*int16_t\s*,\s*(\d+)\s*>", h, "audio_queue_t")
    D("audio_queue_capacity", "nat", int(m.group(1)))
    for name, elem, coq in (("lsf_t", "uint8_t", "lsf_len"), ("lich_segment_t", "uint8_t", "lich_segment_len"),
                            ("audio_frame_t", "int16_t", "audio_frame_len"), ("codec_frame_t", "uint8_t", "codec_frame_len"),
                            ("payload_t", "uint8_t", "payload_len"), ("frame_t", "uint8_t", "frame_len"),
                            ("bitstream_t", "uint8_t", "bitstream_frame_len")):
        m = find1(r"using\s+%s\s*=\s*std::array<\s*%s\s*,\s*(\d+)\s*>\s*;" % (name, elem), h, name)
        D(coq, "nat", int(m.group(1)))
    m = find1(r"using\s+lich_t\s*=\s*std::array<\s*lich_segment_t\s*,\s*(\d+)\s*>", h, "lich_t")
    D("lich_count", "nat", int(m.group(1)))
    m = find1(r"enum\s+class\s+State\s*\{([^}]*)\}", h, "State enum")
    states = [s.strip() for s in m.group(1).split(",") if s.strip()]
    if states != ["INACTIVE", "IDLE", "PREAMBLE", "LINK_SETUP", "ACTIVE", "END_OF_STREAM"]:
        raise AnchorError("State enumerators changed: " + ",".join(states))
    D("state_count", "nat", len(states), "INACTIVE, IDLE, PREAMBLE, LINK_SETUP, ACTIVE, END_OF_STREAM in this order")
    for name, coq in (("SYNC_WORD", "sync_unused"), ("LSF_SYNC_WORD", "sync_lsf"), ("DATA_SYNC_WORD", "sync_stream")):
        m = find1(r"std::array<\s*uint8_t\s*,\s*2\s*>\s+%s\s*=\s*\{\s*([^,}]+),\s*([^}]+)\}" % name, h, name)
        D(coq, "list N", f"[{cint(m.group(1))}; {cint(m.group(2))}]%N")
    m = find1(r"M17ByteRandomizer\s*<\s*(\d+)\s*>\s*randomizer_", h, "randomizer_")
    D("randomizer_size", "nat", int(m.group(1)))
    m = find1(r"PolynomialInterleaver\s*<\s*(\d+)\s*,\s*(\d+)\s*,\s*(\d+)\s*>\s*interleaver_", h, "interleaver_")
    D("interleaver_f1", "N", f"{int(m.group(1))}%N")
    D("interleaver_f2", "N", f"{int(m.group(2))}%N")
    D("interleaver_k", "nat", int(m.group(3)))
    m = find1(r"CRC16\s*<\s*([^,>]+),\s*([^>]+)>\s*crc_\s*;", h, "crc_")
    D("crc_poly", "N", f"{cint(m.group(1))}%N")
    D("crc_init", "N", f"{cint(m.group(2))}%N")

    # ---- M17Modulator::encode_callsign
    b = body_of(h, r"static\s+LinkSetupFrame::encoded_call_t\s+encode_callsign\s*\(\s*std::string\s+callsign\s*\)\s*\{", "M17Modulator::encode_callsign")
    m = find1(r"encoded_call\s*=\s*\{([^}]*)\}", b, "encode_callsign default")
    D("call_default", "list N", "[" + "; ".join(str(cint(x)) for x in m.group(1).split(",")) + "]%N")
    m = find1(r"if\s*\(\s*callsign\.empty\(\)\s*\|\|\s*callsign\.size\(\)\s*>\s*(\d+)\s*\)\s*return\s+encoded_call\s*;", b, "encode_callsign guard")
    D("call_max_len", "nat", int(m.group(1)))

    # ---- output_frame / send_preamble: every byte goes through put() with the default timeout
    b = body_of(h, r"void\s+output_frame\s*\(\s*std::array<uint8_t,\s*2>\s+sync_word\s*,\s*const\s+frame_t&\s+frame\s*\)\s*\{", "output_frame")
    find1(r"for\s*\(\s*auto\s+c\s*:\s*sync_word\s*\)\s*bitstream_queue_->put\(\s*c\s*\)\s*;\s*for\s*\(\s*auto\s+c\s*:\s*frame\s*\)\s*bitstream_queue_->put\(\s*c\s*\)\s*;", b, "output_frame puts (default timeout)")
    b = body_of(h, r"void\s+send_preamble\s*\(\s*\)\s*\{", "send_preamble")
    m = find1(r"std::array<\s*uint8_t\s*,\s*(\d+)\s*>\s+preamble_bytes\s*;\s*preamble_bytes\.fill\(\s*([^)]+)\)\s*;\s*for\s*\(\s*auto\s+c\s*:\s*preamble_bytes\s*\)\s*bitstream_queue_->put\(\s*c\s*\)", b, "send_preamble")
    D("preamble_len", "nat", int(m.group(1)))
    D("preamble_byte", "N", f"{cint(m.group(2))}%N")

    # ---- conv_encode
    b = body_of(h, r"static\s+std::array<T,\s*N\s*\*\s*2\s*\+\s*1>\s+conv_encode\s*\(", "conv_encode")
    m = find1(r"std::array<T,\s*N\s*\*\s*(\d+)\s*\+\s*(\d+)>\s+result\s*;", b, "conv_encode result size")
    D("conv_out_mul", "nat", int(m.group(1)))
    D("conv_out_add", "nat", int(m.group(2)))
    loops = findall(r"for\s*\(\s*size_t\s+i\s*=\s*0\s*;\s*i\s*!=\s*(\d+)\s*;\s*\+\+i\s*\)", b, "conv_encode loops", min_count=2)
    D("conv_bits_per_byte", "nat", int(loops[0]))
    D("conv_flush", "nat", int(loops[1]))
    m = find1(r"uint32_t\s+x\s*=\s*\(\s*b\s*&\s*([^)]+)\)\s*>>\s*(\d+)\s*;\s*b\s*<<=\s*(\d+)\s*;", b, "conv_encode bit extraction")
    D("conv_msb_mask", "N", f"{cint(m.group(1))}%N")
    D("conv_msb_shift", "N", f"{int(m.group(2))}%N")
    D("conv_byte_shift", "N", f"{int(m.group(3))}%N")
    ks = findall(r"memory\s*=\s*update_memory<\s*(\d+)\s*>\s*\(\s*memory\s*,\s*(\w+)\s*\)", b, "update_memory calls", min_count=2)
    if len(ks) != 2 or ks[0][1] != "x" or ks[1][1] != "0":
        raise AnchorError("update_memory calls changed")
    D("conv_mem_k", "list nat", ints(k for k, _ in ks), "update_memory<K> at the data loop and at the flush loop")
    ps = findall(r"tmp\s*=\s*\(\s*tmp\s*<<\s*1\s*\)\s*\|\s*convolve_bit\(\s*([0-9xXa-fA-F]+)\s*,\s*memory\s*\)", b, "convolve_bit calls", min_count=4)
    if len(ps) != 4:
        raise AnchorError("expected 4 convolve_bit calls in conv_encode")
    D("conv_polys", "list N", "[" + "; ".join(str(cint(p)) for p in ps) + "]%N", "data loop (first, second), flush loop (first, second)")
    incs = findall(r"bit_index\s*\+=\s*(\d+)\s*;\s*if\s*\(\s*bit_index\s*==\s*(\d+)\s*\)", b, "bit_index stepping", min_count=2)
    D("conv_bit_inc", "list (N * N)", "[" + "; ".join(f"({a}, {c})" for a, c in incs) + "]%N")
    find1(r"if\s*\(\s*bit_index\s*!=\s*0\s*\)\s*\{\s*while\s*\(\s*bit_index\+\+\s*!=\s*8\s*\)\s*tmp\s*<<=\s*1\s*;\s*result\[byte_index\]\s*=\s*tmp\s*;", b, "conv_encode padding of the last byte")
    cv = strip_cpp_comments(read(repo, "include/m17cxx/Convolution.h"))
    find1(r"return\s+std::popcount\(\s*poly\s*&\s*memory\s*\)\s*&\s*1\s*;", cv, "convolve_bit")
    find1(r"return\s*\(\s*memory\s*<<\s*k\s*\|\s*input\s*\)\s*&\s*\(\s*\(\s*1\s*<<\s*\(\s*K\s*\+\s*1\s*\)\s*\)\s*-\s*1\s*\)\s*;", cv, "update_memory")

    # ---- make_lich_segment
    b = body_of(h, r"lich_segment_t\s+make_lich_segment\s*\(\s*std::array<uint8_t,\s*5>\s+segment\s*,\s*uint8_t\s+segment_number\s*\)\s*\{", "make_lich_segment")
    rng = findall(r"for\s*\(\s*size_t\s+i\s*=\s*(\d+)\s*;\s*i\s*!=\s*(\d+)\s*;\s*\+\+i\s*\)\s*\{\s*assign_bit_index\(\s*result\s*,\s*i\s*,\s*\(\s*encoded\s*&\s*\(\s*1\s*<<\s*(\d+)\s*\)\s*\)\s*!=\s*0\s*\)\s*;\s*encoded\s*<<=\s*1\s*;", b, "make_lich_segment loops", min_count=4)
    D("lich_ranges", "list (nat * nat)", "[" + "; ".join(f"({a}, {c})" for a, c, _ in rng) + "]")
    D("lich_test_bits", "list N", "[" + "; ".join(t for _, _, t in rng) + "]%N")
    ws = findall(r"tmp\s*=\s*([^;]+);\s*encoded\s*=\s*mobilinkd::Golay24::encode24\(\s*tmp\s*\)", b, "lich words", min_count=4)
    canon = [re.sub(r"\s+", "", w) for w in ws]
    expect = ["segment[0]<<4|((segment[1]>>4)&0x0F)", "((segment[1]&0x0F)<<8)|segment[2]",
              "segment[3]<<4|((segment[4]>>4)&0x0F)", "((segment[4]&0x0F)<<8)|(segment_number<<5)"]
    if canon != expect:
        raise AnchorError("make_lich_segment word packing changed: " + " ; ".join(canon))
    D("lich_words_shape", "nat", 4, "the four 12-bit words are packed as in the mirrored source (checked textually)")
    D("lich_segnum_shift", "N", "5%N")

    # ---- send_link_setup
    b = body_of(h, r"void\s+send_link_setup\s*\(\s*lich_t&\s+lich\s*\)\s*\{", "send_link_setup")
    m = find1(r"auto\s+rit\s*=\s*std::copy\(\s*(\w+)\.begin\(\)\s*,\s*\w+\.end\(\)\s*,\s*lsf\.begin\(\)\s*\)\s*;\s*std::copy\(\s*(\w+)\.begin\(\)\s*,\s*\w+\.end\(\)\s*,\s*rit\s*\)", b, "LSF address copies")
    order = {"dest_": 0, "source_": 1}
    if m.group(1) not in order or m.group(2) not in order:
        raise AnchorError("LSF address copies changed")
    D("lsf_first_field", "nat", order[m.group(1)], "0 = dest_, 1 = source_ : the member copied to lsf[0..5]")
    D("lsf_second_field", "nat", order[m.group(2)], "the member copied to lsf[6..11]")
    sets = findall(r"lsf\[(\d+)\]\s*=\s*(\d+|0x[0-9a-fA-F]+)\s*;", b, "lsf[12], lsf[13]", min_count=2)
    D("lsf_type_writes", "list (nat * N)", "[" + "; ".join(f"({i}, {cint(v)}%N)" for i, v in sets) + "]")
    m = find1(r"crc_\.reset\(\)\s*;\s*for\s*\(\s*size_t\s+i\s*=\s*0\s*;\s*i\s*!=\s*(\d+)\s*;\s*\+\+i\s*\)\s*\{\s*crc_\(\s*lsf\[i\]\s*\)\s*;\s*\}\s*auto\s+checksum\s*=\s*crc_\.get_bytes\(\)\s*;\s*lsf\[(\d+)\]\s*=\s*checksum\[0\]\s*;\s*lsf\[(\d+)\]\s*=\s*checksum\[1\]\s*;", b, "LSF CRC")
    D("lsf_crc_span", "nat", int(m.group(1)))
    D("lsf_crc_index", "nat * nat", f"({int(m.group(2))}, {int(m.group(3))})")
    m = find1(r"std::array<uint8_t,\s*(\d+)>\s+segment\s*;\s*std::copy\(\s*lsf\.begin\(\)\s*\+\s*i\s*\*\s*(\d+)\s*,\s*lsf\.begin\(\)\s*\+\s*\(\s*i\s*\+\s*1\s*\)\s*\*\s*(\d+)\s*,\s*segment\.begin\(\)\s*\)\s*;\s*auto\s+lich_segment\s*=\s*make_lich_segment\(\s*segment\s*,\s*i\s*\)", b, "LICH segment copy")
    if len({m.group(1), m.group(2), m.group(3)}) != 1:
        raise AnchorError("LICH segment stride inconsistent")
    D("lich_chunk_len", "nat", int(m.group(1)))
    m = find1(r"auto\s+encoded\s*=\s*conv_encode\(\s*lsf\s*\)\s*;\s*std::array<uint8_t,\s*(\d+)>\s+punctured\s*;\s*auto\s+size\s*=\s*puncture_bytes\(\s*encoded\s*,\s*punctured\s*,\s*(P\d)\s*\)\s*;", b, "LSF puncture")
    D("lsf_punctured_len", "nat", int(m.group(1)))
    D("lsf_puncture_matrix", "nat", int(m.group(2)[1:]))
    find1(r"interleaver_\.interleave\(\s*punctured\s*\)\s*;\s*randomizer_\(\s*punctured\s*\)\s*;\s*output_frame\(\s*LSF_SYNC_WORD\s*,\s*punctured\s*\)\s*;", b, "LSF interleave/randomize/output")
    D("lsf_stages", "list nat", "[1; 2; 3]", "interleave, randomize, output with LSF_SYNC_WORD, in this order")

    # ---- send_audio_frame / make_payload / encode_audio
    b = body_of(h, r"void\s+send_audio_frame\s*\(\s*const\s+lich_segment_t&\s+lich\s*,\s*const\s+payload_t&\s+data\s*\)\s*\{", "send_audio_frame")
    m = find1(r"std::array<uint8_t,\s*(\d+)>\s+temp\s*;\s*auto\s+it\s*=\s*std::copy\(\s*lich\.begin\(\)\s*,\s*lich\.end\(\)\s*,\s*temp\.begin\(\)\s*\)\s*;\s*std::copy\(\s*data\.begin\(\)\s*,\s*data\.end\(\)\s*,\s*it\s*\)\s*;\s*interleaver_\.interleave\(\s*temp\s*\)\s*;\s*randomizer_\(\s*temp\s*\)\s*;\s*output_frame\(\s*DATA_SYNC_WORD\s*,\s*temp\s*\)\s*;", b, "send_audio_frame")
    D("audio_frame_temp_len", "nat", int(m.group(1)))
    b = body_of(h, r"payload_t\s+make_payload\s*\(\s*uint16_t\s+frame_number\s*,\s*const\s+codec_frame_t&\s+payload\s*\)\s*\{", "make_payload")
    m = find1(r"std::array<uint8_t,\s*(\d+)>\s+data\s*;\s*data\[0\]\s*=\s*uint8_t\(\s*\(\s*frame_number\s*>>\s*8\s*\)\s*&\s*0xFF\s*\)\s*;\s*data\[1\]\s*=\s*uint8_t\(\s*frame_number\s*&\s*0xFF\s*\)\s*;\s*std::copy\(\s*payload\.begin\(\)\s*,\s*payload\.end\(\)\s*,\s*data\.begin\(\)\s*\+\s*(\d+)\s*\)\s*;\s*auto\s+encoded\s*=\s*conv_encode\(\s*data\s*\)\s*;\s*payload_t\s+punctured\s*;\s*auto\s+size\s*=\s*puncture_bytes\(\s*encoded\s*,\s*punctured\s*,\s*mobilinkd::(P\d)\s*\)\s*;", b, "make_payload")
    D("payload_message_len", "nat", int(m.group(1)))
    D("payload_offset", "nat", int(m.group(2)))
    D("payload_puncture_matrix", "nat", int(m.group(3)[1:]))
    b = body_of(h, r"codec_frame_t\s+encode_audio\s*\(\s*const\s+audio_frame_t&\s+audio\s*\)\s*\{", "encode_audio")
    cs = findall(r"codec2_encode\(\s*codec2_\s*,\s*&result\[(\d+)\]\s*,\s*const_cast<int16_t\*>\(\s*&audio\[(\d+)\]\s*\)\s*\)", b, "codec2_encode calls", min_count=2)
    D("codec_calls", "list (nat * nat)", "[" + "; ".join(f"({a}, {c})" for a, c in cs) + "]", "(offset in the 16-byte result, offset in the 320-sample frame)")
    state_machine(h, D)
    helpers(repo, D)
    return "\n".join(out) + "\n"


def state_machine(h, D):
    """modulate(), ptt_on(), ptt_off()"""
    b = body_of(h, r"void\s+modulate\s*\(\s*\)\s*\{", "modulate")
    find1(r"state_\s*=\s*State::IDLE\s*;", b, "modulate: initial IDLE")
    m = find1(r"size_t\s+index\s*=\s*(\d+)\s*;\s*uint16_t\s+frame_number\s*=\s*(\d+)\s*;\s*uint8_t\s+lich_segment\s*=\s*(\d+)\s*;\s*audio_frame_t\s+audio\s*;", b, "modulate locals")
    D("init_locals", "list N", f"[{m.group(1)}; {m.group(2)}; {m.group(3)}]%N", "index, frame_number, lich_segment")
    find1(r"audio\.fill\(\s*0\s*\)\s*;\s*while\s*\(\s*audio_queue_->is_open\(\)\s*&&\s*bitstream_queue_->is_open\(\)\s*\)", b, "modulate loop head")
    m = find1(r"int16_t\s+sample\s*;\s*if\s*\(\s*!\s*\(\s*audio_queue_->get\(\s*sample\s*,\s*(\d+)s\s*\)\s*\)\s*\)\s*sample\s*=\s*(-?\d+)\s*;", b, "modulate get with timeout")
    D("get_timeout_s", "nat", int(m.group(1)))
    D("timeout_sample", "Z", f"({int(m.group(2))})%Z")
    sw = body_of(b, r"switch\s*\(\s*state_\s*\)\s*\{", "switch(state_)")
    cases = re.split(r"case\s+State::(\w+)\s*:", sw)
    # cases = [pre, name1, body1, name2, body2, ...]
    names = cases[1::2]
    bodies = dict(zip(names, cases[2::2]))
    if names != ["IDLE", "PREAMBLE", "LINK_SETUP", "ACTIVE", "END_OF_STREAM"]:
        raise AnchorError("switch cases changed: " + ",".join(names))
    if re.sub(r"\s+", "", bodies["IDLE"]) != "break;":
        raise AnchorError("IDLE case is no longer empty")
    find1(r"^\s*send_preamble\(\)\s*;\s*state_\s*=\s*State::LINK_SETUP\s*;\s*break\s*;\s*$", bodies["PREAMBLE"], "PREAMBLE case")
    m = find1(r"^\s*send_link_setup\(\s*lich\s*\)\s*;\s*index\s*=\s*(\d+)\s*;\s*frame_number\s*=\s*(\d+)\s*;\s*lich_segment\s*=\s*(\d+)\s*;\s*state_\s*=\s*State::ACTIVE\s*;\s*current\s*=\s*clock::now\(\)\s*;\s*break\s*;\s*$", bodies["LINK_SETUP"], "LINK_SETUP case")
    D("keyup_locals", "list N", f"[{m.group(1)}; {m.group(2)}; {m.group(3)}]%N", "index, frame_number, lich_segment as reset in LINK_SETUP")
    a = bodies["ACTIVE"]
    find1(r"^\s*audio\[index\+\+\]\s*=\s*sample\s*;\s*if\s*\(\s*index\s*==\s*audio\.size\(\)\s*\)", a, "ACTIVE: store sample")
    m = find1(r"index\s*=\s*(\d+)\s*;\s*send_audio\(\s*lich\[lich_segment\+\+\]\s*,\s*frame_number\+\+\s*,\s*audio\s*\)\s*;\s*if\s*\(\s*frame_number\s*==\s*(0x[0-9a-fA-F]+|\d+)\s*\)\s*frame_number\s*=\s*(\d+)\s*;\s*if\s*\(\s*lich_segment\s*==\s*lich\.size\(\)\s*\)\s*lich_segment\s*=\s*(\d+)\s*;\s*audio\.fill\(\s*0\s*\)\s*;\s*\}\s*break\s*;\s*$", a, "ACTIVE: frame emission, wraps")
    D("active_index_reset", "N", f"{m.group(1)}%N")
    D("fn_wrap_at", "N", f"{cint(m.group(2))}%N")
    D("fn_wrap_to", "N", f"{m.group(3)}%N")
    D("lich_wrap_to", "N", f"{m.group(4)}%N")
    m = find1(r"now\s*-\s*current\s*>\s*(\d+)ms", a, "40 ms warning")
    D("packet_time_warning_ms", "nat", int(m.group(1)))
    e = bodies["END_OF_STREAM"]
    m = find1(r"^\s*audio\[index\+\+\]\s*=\s*sample\s*;\s*send_audio\(\s*lich\[lich_segment\+\+\]\s*,\s*frame_number\+\+\s*\|\s*(0x[0-9a-fA-F]+|\d+)\s*,\s*audio\s*\)\s*;\s*audio\.fill\(\s*0\s*\)\s*;\s*state_\s*=\s*State::IDLE\s*;\s*break\s*;", e, "END_OF_STREAM case (EOS mask on the frame number)")
    D("eos_mask", "N", f"{cint(m.group(1))}%N", "or-ed into the frame number passed to send_audio in the END_OF_STREAM case only")
    # send_audio: encode_audio -> make_payload -> send_audio_frame
    sa = body_of(h, r"void\s+send_audio\s*\(\s*const\s+lich_segment_t&\s+lich\s*,\s*uint16_t\s+frame_number\s*,\s*const\s+audio_frame_t&\s+audio\s*\)\s*\{", "send_audio")
    find1(r"auto\s+encoded_audio\s*=\s*encode_audio\(\s*audio\s*\)\s*;\s*auto\s+payload\s*=\s*make_payload\(\s*frame_number\s*,\s*encoded_audio\s*\)\s*;\s*send_audio_frame\(\s*lich\s*,\s*payload\s*\)\s*;", sa, "send_audio")
    # API
    p = body_of(h, r"void\s+ptt_on\s*\(\s*\)\s*\{", "ptt_on")
    find1(r"if\s*\(\s*state_\s*==\s*State::ACTIVE\s*\)\s*return\s*;\s*while\s*\(\s*state_\s*!=\s*State::IDLE\s*&&\s*state_\s*!=\s*State::INACTIVE\s*\)\s*std::this_thread::sleep_for\([^)]*\)\s*;\s*(?:assert\([^;]*\)\s*;\s*)?state_\s*=\s*State::PREAMBLE\s*;", p, "ptt_on")
    p = body_of(h, r"void\s+ptt_off\s*\(\s*\)\s*\{", "ptt_off")
    find1(r"while\s*\(\s*state_\s*!=\s*State::ACTIVE\s*&&\s*state_\s*!=\s*State::INACTIVE\s*\)\s*std::this_thread::sleep_for\([^)]*\)\s*;\s*(?:assert\([^;]*\)\s*;\s*)?state_\s*=\s*State::END_OF_STREAM\s*;", p, "ptt_off")
    p = body_of(h, r"void\s+wait_until_idle\s*\(\s*\)\s*\{", "wait_until_idle")
    find1(r"while\s*\(\s*state_\s*!=\s*State::IDLE\s*&&\s*state_\s*!=\s*State::INACTIVE\s*\)", p, "wait_until_idle")
    D("api_shape", "nat", 3, "ptt_on acts in IDLE (returns at once in ACTIVE), ptt_off acts in ACTIVE, wait_until_idle: checked textually")


def helpers(repo, D):
    """Util.h bit helpers and puncture_bytes, Trellis.h matrices, PolynomialInterleaver, M17ByteRandomizer, Golay24, queue, callsign"""
    u = strip_cpp_comments(read(repo, "include/m17cxx/Util.h"))
    g = body_of(u, r"constexpr\s+bool\s+get_bit_index\s*\(", "get_bit_index")
    find1(r"auto\s+byte_index\s*=\s*index\s*>>\s*3\s*;.*?auto\s+bit_index\s*=\s*7\s*-\s*\(\s*index\s*&\s*7\s*\)\s*;\s*return\s*\(\s*input\[byte_index\]\s*&\s*\(\s*1\s*<<\s*bit_index\s*\)\s*\)\s*>>\s*bit_index\s*;", g, "get_bit_index body")
    g = body_of(u, r"void\s+set_bit_index\s*\(", "set_bit_index")
    find1(r"auto\s+byte_index\s*=\s*index\s*>>\s*3\s*;.*?auto\s+bit_index\s*=\s*7\s*-\s*\(\s*index\s*&\s*7\s*\)\s*;\s*input\[byte_index\]\s*\|=\s*\(\s*1\s*<<\s*bit_index\s*\)\s*;", g, "set_bit_index body")
    g = body_of(u, r"void\s+reset_bit_index\s*\(", "reset_bit_index")
    find1(r"auto\s+byte_index\s*=\s*index\s*>>\s*3\s*;.*?auto\s+bit_index\s*=\s*7\s*-\s*\(\s*index\s*&\s*7\s*\)\s*;\s*input\[byte_index\]\s*&=\s*~\(\s*1\s*<<\s*bit_index\s*\)\s*;", g, "reset_bit_index body")
    g = body_of(u, r"void\s+assign_bit_index\s*\(", "assign_bit_index")
    find1(r"if\s*\(\s*value\s*\)\s*set_bit_index\(\s*input\s*,\s*index\s*\)\s*;\s*else\s+reset_bit_index\(\s*input\s*,\s*index\s*\)\s*;", g, "assign_bit_index body")
    D("bit_index_shift", "N", "3%N", "index >> 3, 7 - (index & 7): checked textually in get/set/reset_bit_index")
    g = body_of(u, r"size_t\s+puncture_bytes\s*\(", "puncture_bytes")
    find1(r"for\s*\(\s*size_t\s+i\s*=\s*0\s*;\s*i\s*!=\s*IN\s*\*\s*8\s*&&\s*index\s*!=\s*OUT\s*\*\s*8\s*;\s*\+\+i\s*\)\s*\{\s*if\s*\(\s*p\[pindex\+\+\]\s*\)\s*\{\s*assign_bit_index\(\s*out\s*,\s*index\+\+\s*,\s*get_bit_index\(\s*in\s*,\s*i\s*\)\s*\)\s*;\s*bit_count\+\+\s*;\s*\}\s*if\s*\(\s*pindex\s*==\s*P\s*\)\s*pindex\s*=\s*0\s*;\s*\}\s*return\s+bit_count\s*;", g, "puncture_bytes body")
    D("puncture_bytes_shape", "nat", 1, "loop of puncture_bytes checked textually")
    t = strip_cpp_comments(read(repo, "include/m17cxx/Trellis.h"))
    m = find1(r"std::array<int8_t,\s*(\d+)>\s+make_p1\(\)\s*\{\s*std::array<int8_t,\s*\d+>\s+result\{\}\s*;\s*for\s*\(\s*size_t\s+i\s*=\s*0\s*,\s*j\s*=\s*(\d+)\s*;\s*i\s*!=\s*(\d+)\s*;\s*\+\+i\s*\)\s*\{\s*if\s*\(\s*i\s*==\s*j\s*\)\s*\{\s*result\[i\]\s*=\s*0\s*;\s*j\s*\+=\s*(\d+)\s*;\s*\}\s*else\s*\{\s*result\[i\]\s*=\s*1\s*;", t, "make_p1")
    if m.group(1) != m.group(3):
        raise AnchorError("make_p1 size/loop bound differ")
    D("p1_len", "nat", int(m.group(1)))
    D("p1_first_zero", "nat", int(m.group(2)))
    D("p1_zero_stride", "nat", int(m.group(4)))
    m = find1(r"constexpr\s+auto\s+P2\s*=\s*std::array<int8_t,\s*(\d+)>\s*\{([^}]*)\}", t, "P2")
    p2 = [int(x) for x in m.group(2).split(",") if x.strip()]
    if len(p2) != int(m.group(1)):
        raise AnchorError("P2 size")
    D("p2", "list bool", "[" + "; ".join("true" if x else "false" for x in p2) + "]")
    il = strip_cpp_comments(read(repo, "include/m17cxx/PolynomialInterleaver.h"))
    find1(r"return\s*\(\s*\(\s*F1\s*\*\s*i\s*\)\s*\+\s*\(\s*F2\s*\*\s*i\s*\*\s*i\s*\)\s*\)\s*%\s*K\s*;", il, "PolynomialInterleaver::index")
    g = body_of(il, r"void\s+interleave\s*\(\s*bytes_t&\s+data\s*\)\s*\{", "interleave(bytes_t&)")
    find1(r"bytes_t\s+buffer\s*;\s*buffer\.fill\(\s*0\s*\)\s*;\s*for\s*\(\s*size_t\s+i\s*=\s*0\s*;\s*i\s*!=\s*K\s*;\s*\+\+i\s*\)\s*\{\s*assign_bit_index\(\s*buffer\s*,\s*index\(\s*i\s*\)\s*,\s*get_bit_index\(\s*data\s*,\s*i\s*\)\s*\)\s*;\s*\}\s*std::copy\(\s*buffer\.begin\(\)\s*,\s*buffer\.end\(\)\s*,\s*data\.begin\(\)\s*\)\s*;", g, "interleave(bytes_t&) body")
    D("interleave_bytes_shape", "nat", 1, "interleave(bytes_t&) checked textually")
    r = strip_cpp_comments(read(repo, "include/m17cxx/M17Randomizer.h"))
    m = find1(r"inline\s+auto\s+DC\s*=\s*std::array<uint8_t,\s*(\d+)>\s*\{([^}]*)\}", r, "detail::DC")
    dc = [cint(x) for x in m.group(2).split(",") if x.strip()]
    if len(dc) != int(m.group(1)):
        raise AnchorError("DC size")
    D("dc", "list N", "[" + "; ".join(map(str, dc)) + "]%N")
    g = body_of(r, r"struct\s+M17ByteRandomizer\s*\{", "M17ByteRandomizer")
    m = find1(r"for\s*\(\s*size_t\s+i\s*=\s*0\s*;\s*i\s*!=\s*N\s*;\s*\+\+i\s*\)\s*\{\s*for\s*\(\s*size_t\s+j\s*=\s*(\d+)\s*;\s*j\s*!=\s*0\s*;\s*--j\s*\)\s*\{\s*uint8_t\s+mask\s*=\s*1\s*<<\s*\(\s*j\s*-\s*1\s*\)\s*;\s*frame\[i\]\s*=\s*\(\s*frame\[i\]\s*&\s*~mask\s*\)\s*\|\s*\(\s*\(\s*frame\[i\]\s*&\s*mask\s*\)\s*\^\s*\(\s*detail::DC\[i\]\s*&\s*mask\s*\)\s*\)\s*;", g, "M17ByteRandomizer body")
    D("randomizer_bits", "nat", int(m.group(1)))
    go = strip_cpp_comments(read(repo, "include/m17cxx/Golay24.h"))
    m = find1(r"constexpr\s+uint16_t\s+POLY\s*=\s*(0x[0-9a-fA-F]+)\s*;", go, "Golay POLY")
    D("golay_poly", "N", f"{cint(m.group(1))}%N")
    g = body_of(go, r"constexpr\s+uint32_t\s+encode23\s*\(\s*uint16_t\s+data\s*\)\s*\{", "encode23")
    m = find1(r"uint32_t\s+codeword\s*=\s*data\s*;\s*for\s*\(\s*size_t\s+i\s*=\s*0\s*;\s*i\s*!=\s*(\d+)\s*;\s*\+\+i\s*\)\s*\{\s*if\s*\(\s*codeword\s*&\s*1\s*\)\s*codeword\s*\^=\s*POLY\s*;\s*codeword\s*>>=\s*1\s*;\s*\}\s*return\s+codeword\s*\|\s*\(\s*data\s*<<\s*(\d+)\s*\)\s*;", g, "encode23 body")
    D("golay_steps", "nat", int(m.group(1)))
    D("golay_data_shift", "N", f"{int(m.group(2))}%N")
    g = body_of(go, r"constexpr\s+uint32_t\s+encode24\s*\(\s*uint16_t\s+data\s*\)\s*\{", "encode24")
    find1(r"auto\s+codeword\s*=\s*encode23\(\s*data\s*\)\s*;\s*return\s*\(\s*\(\s*codeword\s*<<\s*1\s*\)\s*\|\s*parity\(\s*codeword\s*\)\s*\)\s*;", g, "encode24 body")
    find1(r"constexpr\s+bool\s+parity\s*\(\s*uint32_t\s+codeword\s*\)\s*\{\s*return\s+std::popcount\(\s*codeword\s*\)\s*&\s*1\s*;", go, "Golay parity")
    ls = strip_cpp_comments(read(repo, "include/m17cxx/LinkSetupFrame.h"))
    g = body_of(ls, r"static\s+encoded_call_t\s+encode_callsign\s*\(\s*call_t\s+callsign\s*,\s*bool\s+strict\s*=\s*false\s*\)\s*\{", "LinkSetupFrame::encode_callsign")
    m = find1(r"encoded\s*\*=\s*(\d+)\s*;\s*if\s*\(\s*c\s*>=\s*'A'\s*and\s*c\s*<=\s*'Z'\s*\)\s*\{\s*encoded\s*\+=\s*c\s*-\s*'A'\s*\+\s*(\d+)\s*;\s*\}\s*else\s+if\s*\(\s*c\s*>=\s*'0'\s*and\s*c\s*<=\s*'9'\s*\)\s*\{\s*encoded\s*\+=\s*c\s*-\s*'0'\s*\+\s*(\d+)\s*;\s*\}\s*else\s+if\s*\(\s*c\s*==\s*'-'\s*\)\s*\{\s*encoded\s*\+=\s*(\d+)\s*;\s*\}\s*else\s+if\s*\(\s*c\s*==\s*'/'\s*\)\s*\{\s*encoded\s*\+=\s*(\d+)\s*;\s*\}\s*else\s+if\s*\(\s*c\s*==\s*'\.'\s*\)\s*\{\s*encoded\s*\+=\s*(\d+)\s*;", g, "encode_callsign digits")
    D("call_radix", "N", f"{m.group(1)}%N")
    D("call_offsets", "list N", f"[{m.group(2)}; {m.group(3)}; {m.group(4)}; {m.group(5)}; {m.group(6)}]%N", "'A'.., '0'.., '-', '/', '.'")
    m = find1(r"using\s+call_t\s*=\s*std::array<char,\s*(\d+)>", ls, "call_t")
    D("call_array_len", "nat", int(m.group(1)))
    m = find1(r"std::copy\(\s*p\s*,\s*p\s*\+\s*(\d+)\s*,\s*result\.rbegin\(\)\s*\)", g, "encode_callsign byte copy")
    D("call_bytes", "nat", int(m.group(1)))
    q = strip_cpp_comments(read(repo, "include/m17cxx/queue.h"))
    g = body_of(q, r"bool\s+put\s*\(", "queue::put")
    forever = bool(re.search(r"timeout\s*==\s*[^;]*?::max\(\)", g)) and bool(re.search(r"full_\.wait\(\s*lock\s*\)", g))
    D("put_default_waits_without_deadline", "bool", "true" if forever else "false", "queue::put tests for the default (maximum) timeout and then waits without a deadline")
