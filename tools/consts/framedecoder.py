"""Constants of include/m17cxx/M17FrameDecoder.h that the frame-decoder model (ImplFrameDecoder.v) mentions."""
import re
from vlib import read, strip_cpp_comments, find1, findall, cint, AnchorError


def arr_size(h, name, elem):
    m = find1(r"using\s+%s\s*=\s*std::array<\s*%s\s*,\s*(\d+)\s*>\s*;" % (name, elem), h, f"{name} size")
    return int(m.group(1))


def generate(repo):
    h = strip_cpp_comments(read(repo, "include/m17cxx/M17FrameDecoder.h"))
    out = ["From Coq Require Import NArith ZArith List.", "Import ListNotations.", ""]
    m = find1(r"static\s+constexpr\s+size_t\s+MAX_LICH_FRAGMENT\s*=\s*([^;]+);", h, "MAX_LICH_FRAGMENT")
    out.append(f"Definition max_lich_fragment : N := {cint(m.group(1))}%N.")
    m = find1(r"M17Randomizer\s*<\s*(\d+)\s*>\s*derandomize_", h, "derandomizer size")
    out.append(f"Definition derandomizer_size : nat := {int(m.group(1))}.")
    m = find1(r"PolynomialInterleaver\s*<\s*(\d+)\s*,\s*(\d+)\s*,\s*(\d+)\s*>\s*interleaver_", h, "interleaver instantiation")
    out.append(f"Definition interleaver_args : (nat * nat * nat) := ({int(m.group(1))}, {int(m.group(2))}, {int(m.group(3))}).")
    m = find1(r"Trellis\s*<\s*(\d+)\s*,\s*(\d+)\s*>\s*trellis_\s*\{\s*makeTrellis\s*<\s*\d+\s*,\s*\d+\s*>\s*\(\s*\{\s*([0-9xXa-fA-F]+)\s*,\s*([0-9xXa-fA-F]+)\s*\}\s*\)\s*\}", h, "trellis")
    out.append(f"Definition trellis_K : nat := {int(m.group(1))}.")
    out.append(f"Definition trellis_n : nat := {int(m.group(2))}.")
    out.append(f"Definition trellis_polys : list N := [{cint(m.group(3))}; {cint(m.group(4))}]%N.")
    m = find1(r"Viterbi\s*<\s*decltype\(trellis_\)\s*,\s*(\d+)\s*>\s*viterbi_", h, "viterbi LLR width")
    out.append(f"Definition viterbi_llr : nat := {int(m.group(1))}.")
    sizes = {
        "input_buffer_t": ("int8_t", "input_size"), "lsf_buffer_t": ("uint8_t", "lsf_bytes"), "lich_buffer_t": ("uint8_t", "lich_bytes"),
        "audio_buffer_t": ("uint8_t", "stream_bytes"), "packet_buffer_t": ("uint8_t", "packet_bytes"), "bert_buffer_t": ("uint8_t", "bert_bytes"),
    }
    for name, (elem, coq) in sizes.items():
        out.append(f"Definition {coq} : nat := {arr_size(h, name, elem)}.")
    m = find1(r"using\s+depunctured_buffer_t\s*=\s*union\s*\{(.*?)\}\s*;", h, "depunctured_buffer_t")
    dep = dict((n, int(s)) for s, n in re.findall(r"std::array<\s*int8_t\s*,\s*(\d+)\s*>\s*(\w+)\s*;", m.group(1)))
    m = find1(r"using\s+decode_buffer_t\s*=\s*union\s*\{(.*?)\}\s*;", h, "decode_buffer_t")
    dec = dict((n, int(s)) for s, n in re.findall(r"std::array<\s*uint8_t\s*,\s*(\d+)\s*>\s*(\w+)\s*;", m.group(1)))
    for k in ("lsf", "stream", "packet", "bert"):
        if k not in dep or k not in dec:
            raise AnchorError(f"union member {k} not found")
    out.append("(* (IN, OUT) per geometry: lsf, stream, packet, bert *)")
    out.append("Definition geometries : list (nat * nat) := [" + "; ".join(f"({dep[k]}, {dec[k]})" for k in ("lsf", "stream", "packet", "bert")) + "].")
    # which puncture matrix each decode function uses
    for fn, coq in (("decode_lsf", "p_lsf"), ("decode_stream", "p_stream"), ("decode_bert", "p_bert"), ("decode_packet", "p_packet")):
        m = find1(r"DecodeResult\s+%s\s*\(.*?depuncture\s*\(\s*\w+\s*,\s*depuncture_buffer\.(\w+)\s*,\s*(P\d)\s*\)" % fn, h, f"{fn} depuncture call")
        out.append(f"Definition {coq} : (nat * nat) := ({dep[m.group(1)]}, {int(m.group(2)[1:])}).  (* (IN, matrix number) *)")
    # update_state bit indices
    us = find1(r"void\s+update_state\s*\(.*?\)\s*\{(.*?)\n    \}", h, "update_state").group(1)
    idx = [int(x) for x in re.findall(r"lsf_output\[(\d+)\]", us)]
    out.append("Definition update_state_indices : list nat := [" + "; ".join(map(str, idx)) + "].")
    cases = re.findall(r"case\s+(\d+)\s*:[^;]*?state_\s*=\s*State::(\w+)", us)
    if not cases or not idx:
        raise AnchorError("update_state: the switch over the packet type (case N: state_ = State::X) / the lsf_output[i] bit tests were not found")
    out.append("Definition update_state_cases : list (nat * nat) := [" + "; ".join(f"({c}, {0 if s == 'BASIC_PACKET' else 1})" for c, s in cases) + "].  (* packet_type -> 0 BASIC / 1 FULL *)")
    dl = find1(r"DecodeResult\s+decode_lich\s*\(.*?\)\s*\{(.*?)\n    \}", h, "decode_lich").group(1)
    m = find1(r"fragment_number\s*=\s*\(\s*fragment_number\s*>>\s*(\d+)\s*\)\s*&\s*(\d+)", dl, "fragment number extraction")
    out.append(f"Definition frag_shift : N := {int(m.group(1))}%N.")
    out.append(f"Definition frag_mask : N := {int(m.group(2))}%N.")
    m = find1(r"output_buffer\.lich\[(\d+)\]", dl, "fragment byte index")
    out.append(f"Definition frag_byte : nat := {int(m.group(1))}.")
    m = find1(r"output_buffer\.lich\.begin\(\)\s*\+\s*(\d+)\s*,\s*output_buffer\.lsf\.begin\(\)\s*\+\s*\(\s*fragment_number\s*\*\s*(\d+)\s*\)", dl, "fragment copy")
    out.append(f"Definition frag_copy_len : nat := {int(m.group(1))}.")
    out.append(f"Definition frag_stride : nat := {int(m.group(2))}.")
    m = find1(r"\(\s*lich_segments\s*&\s*(0x[0-9a-fA-F]+)\s*\)\s*!=\s*(0x[0-9a-fA-F]+)", dl, "segment mask")
    out.append(f"Definition seg_mask : N := {cint(m.group(1))}%N.")
    out.append(f"Definition seg_full : N := {cint(m.group(2))}%N.")
    costs = [int(x) for x in re.findall(r"viterbi_cost\s*=\s*(-?\d+)\s*;", dl)]
    out.append("Definition lich_costs : list Z := [" + "; ".join(f"({c})" if c < 0 else str(c) for c in costs) + "]%Z.")
    if "if (fragment_number > MAX_LICH_FRAGMENT)" not in dl or dl.index("fragment_number > MAX_LICH_FRAGMENT") > dl.index("std::copy"):
        raise AnchorError("decode_lich: the fragment-number guard no longer precedes the copy")
    ds = find1(r"DecodeResult\s+decode_stream\s*\(.*?\)\s*\{(.*?)\n    \}", h, "decode_stream").group(1)
    m = find1(r"buffer\.begin\(\)\s*\+\s*(\d+)", ds, "stream payload offset")
    out.append(f"Definition stream_offset : nat := {int(m.group(1))}.")
    dp = find1(r"DecodeResult\s+decode_packet\s*\(.*?\)\s*\{(.*?)\n    \}", h, "decode_packet").group(1)
    m = find1(r"output_buffer\.packet\[(\d+)\]\s*&\s*(0x[0-9a-fA-F]+)", dp, "packet EOF test")
    out.append(f"Definition eof_byte : nat := {int(m.group(1))}.")
    out.append(f"Definition eof_mask : N := {cint(m.group(2))}%N.")
    ul = find1(r"bool\s+unpack_lich\s*\(.*?\)\s*\{(.*?)\n    \}", h, "unpack_lich").group(1)
    nums = [cint(x) for x in re.findall(r"(?<![\w.])(0x[0-9a-fA-F]+|\d+)(?![\w.])", ul)]
    out.append("(* every integer literal of unpack_lich, in source order *)")
    out.append("Definition unpack_lich_literals : list N := [" + "; ".join(map(str, nums)) + "]%N.")
    return "\n".join(out) + "\n"
