"""Constants of the callsign codec in include/m17cxx/LinkSetupFrame.h: array sizes, broadcast address/call,
the decode table, the character ranges and digit offsets of the if/else-if chain of encode_callsign, the radix
at each of its three uses, the number of bytes copied, and the bound of the decode loop (absent -> None)."""
import re
from vlib import read, strip_cpp_comments, find1, findall, cint, AnchorError

REL = "include/m17cxx/LinkSetupFrame.h"


def chr_code(tok):
    tok = tok.strip()
    m = re.fullmatch(r"'(\\?.)'", tok)
    if m:
        s = m.group(1)
        if s.startswith("\\"):
            return {"\\0": 0, "\\n": 10, "\\\\": 92, "\\'": 39}[s]
        return ord(s)
    return cint(tok)


def generate(repo):
    raw = read(repo, REL)
    h = strip_cpp_comments(raw)
    out = ["From Coq Require Import NArith List.", "Import ListNotations.", ""]
    m = find1(r"using\s+call_t\s*=\s*std::array\s*<\s*char\s*,\s*(\d+)\s*>", h, "call_t")
    call_size = int(m.group(1))
    m = find1(r"using\s+encoded_call_t\s*=\s*std::array\s*<\s*uint8_t\s*,\s*(\d+)\s*>", h, "encoded_call_t")
    enc_size = int(m.group(1))
    m = find1(r"encoded_call_t\s+BROADCAST_ADDRESS\s*=\s*\{([^}]*)\}", h, "BROADCAST_ADDRESS")
    baddr = [cint(t) for t in m.group(1).split(",") if t.strip()]
    m = find1(r"call_t\s+BROADCAST_CALL\s*=\s*\{([^}]*)\}", h, "BROADCAST_CALL")
    bcall = [chr_code(t) for t in re.findall(r"'\\?.'|[0-9a-fA-FxX]+", m.group(1))]
    if len(baddr) != enc_size or len(bcall) != call_size:
        raise AnchorError("broadcast constants do not fill their arrays")
    # ---- encode_callsign  (identifiers are not anchored: a renamed local is not a change of behaviour)
    e = find1(r"static\s+encoded_call_t\s+encode_callsign\s*\(\s*call_t\s+\w+\s*,\s*bool\s+(\w+)\s*=\s*false\s*\)\s*\{(.*?)\n    \}", h,
              "encode_callsign body")
    strict_name, e = e.group(1), e.group(2)
    m = find1(r"for\s*\(\s*(?:auto|char)\s+(\w+)\s*:\s*\w+\s*\)\s*\{\s*(\w+)\s*\*=\s*(\w+)\s*;", e, "for (auto c : callsign) { encoded *= 40;")
    cv, ev, enc_mul = re.escape(m.group(1)), re.escape(m.group(2)), cint(m.group(3))
    chain = e[m.end():]
    ranges = []
    AND = r"(?:and|&&)"
    # the chain in source order: ranges "c >= 'A' and c <= 'Z'" with "encoded += c - 'A' + k", singles "c == '-'" with "encoded += k"
    pat = re.compile(
        r"(?:else\s+)?if\s*\(\s*%(c)s\s*>=\s*('.')\s*%(a)s\s*%(c)s\s*<=\s*('.')\s*\)\s*\{\s*%(e)s\s*\+=\s*%(c)s\s*-\s*('.')\s*\+\s*(\d+)\s*;\s*\}"
        r"|else\s+if\s*\(\s*%(c)s\s*==\s*('.')\s*\)\s*\{\s*%(e)s\s*\+=\s*(\d+)\s*;\s*\}"
        r"|else\s+if\s*\(\s*%(s)s\s*\)\s*\{\s*throw\s+std::invalid_argument\s*\([^)]*\)\s*;\s*\}" % {"c": cv, "e": ev, "a": AND, "s": re.escape(strict_name)})
    seen_strict = False
    p = 0
    while True:
        m = pat.match(chain, _skip_ws(chain, p))
        if not m:
            break
        if m.group(1):
            lo, hi, sub, k = chr_code(m.group(1)), chr_code(m.group(2)), chr_code(m.group(3)), int(m.group(4))
            if sub != lo:
                raise AnchorError("range branch subtracts a different character than its lower bound")
            ranges.append((lo, hi, k))
        elif m.group(5):
            c = chr_code(m.group(5))
            ranges.append((c, c, int(m.group(6))))
        else:
            seen_strict = True
        p = m.end()
    rest = chain[_skip_ws(chain, p):]
    if not seen_strict or not ranges or not re.match(r"\}\s*(?:const\s+)?auto\s+\w+\s*=\s*reinterpret_cast\s*<", rest):
        raise AnchorError("encode_callsign: if/else-if chain not recognised (" + rest[:60].replace("\n", " ") + ")")
    m = find1(r"std::copy\s*\(\s*(\w+)\s*,\s*\1\s*\+\s*(\d+)\s*,\s*\w+\.rbegin\(\)\s*\)\s*;", e, "copy of the low bytes, reversed")
    enc_copy = int(m.group(2))
    # ---- decode_callsign
    d = find1(r"static\s+call_t\s+decode_callsign\s*\(\s*encoded_call_t\s+\w+\s*,\s*bool\s+\w+\s*=\s*false\s*\)\s*\{(.*?)\n    \}", raw,
              "decode_callsign body").group(1)
    m = find1(r'static\s+(?:const|constexpr)\s+char\s+(\w+)\[\]\s*=\s*"([^"\\]*)"\s*;', d, "callsign_map")
    tv = re.escape(m.group(1))
    table = [ord(c) for c in m.group(2)] + [0]      # the string literal's terminating NUL is part of the array
    d = strip_cpp_comments(d)
    m = find1(r"while\s*\(\s*(\w+)\s*(?:&&\s*(\w+)\s*!=\s*(\w+)\.size\(\)\s*(?:-\s*(\d+)\s*)?)?\)\s*\{\s*"
              r"(\w+)\s*\[\s*(\w+)\+\+\s*\]\s*=\s*%s\s*\[\s*\1\s*%%\s*(\d+)\s*\]\s*;\s*\1\s*/=\s*(\d+)\s*;\s*\}" % tv, d,
              "decode digit loop")
    bound = m.group(4) if m.group(2) is None or m.group(4) is not None else "0"
    if m.group(2) is not None and (m.group(2) != m.group(6) or m.group(3) != m.group(5)):
        raise AnchorError("decode digit loop: the bound is not on the index / array that is written")
    dec_mod, dec_div = int(m.group(7)), int(m.group(8))
    out.append(f"Definition call_size : nat := {call_size}.")
    out.append(f"Definition enc_size : nat := {enc_size}.")
    out.append(f"Definition enc_copy : nat := {enc_copy}.   (* std::copy(p, p + {enc_copy}, result.rbegin()) *)")
    out.append("Definition broadcast_address : list N := [" + "; ".join(map(str, baddr)) + "]%N.")
    out.append("Definition broadcast_call : list N := [" + "; ".join(map(str, bcall)) + "]%N.")
    out.append("(* callsign_map[], including the string literal's terminating NUL *)")
    out.append("Definition callsign_map : list N := [" + "; ".join(map(str, table)) + "]%N.")
    out.append("(* the if/else-if chain of encode_callsign in source order: (lo, hi, k) stands for  lo <= c <= hi -> encoded += c - lo + k *)")
    out.append("Definition enc_ranges : list (N * N * N) := [" + "; ".join(f"({a}, {b}, {k})" for a, b, k in ranges) + "]%N.")
    out.append(f"Definition enc_mul : N := {enc_mul}%N.")
    out.append(f"Definition dec_mod : N := {dec_mod}%N.")
    out.append(f"Definition dec_div : N := {dec_div}%N.")
    out.append("(* decode loop: while (encoded && index != result.size() - k) -> Some k; while (encoded) -> None *)")
    out.append("Definition dec_index_reserve : option nat := " + (f"Some {int(bound)}" if bound is not None else "None") + ".")
    return "\n".join(out) + "\n"


def _skip_ws(s, p):
    while p < len(s) and s[p].isspace():
        p += 1
    return p
