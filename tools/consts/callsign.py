"""Constants of the callsign codec in include/m17cxx/LinkSetupFrame.h: array sizes, broadcast address/call,
the decode table, the character ranges and digit offsets of the if/else-if chain of encode_callsign, the radix
at each of its three uses, the number of bytes copied, and the bound of the decode loop (absent -> None)."""
import re
from vlib import read, strip_cpp_comments, find1, findall, cint, AnchorError

REL = "include/m17cxx/LinkSetupFrame.h"


def chr_code(tok):
    tok = tok.strip()
    m = re.fullmatch(r"'(\\?.)'", tok)
    if m:
        s = m.group(1)
        if s.startswith("\\"):
            return {"\\0": 0, "\\n": 10, "\\\\": 92, "\\'": 39}[s]
        return ord(s)
    return cint(tok)


def generate(repo):
    raw = read(repo, REL)
    h = strip_cpp_comments(raw)
    out = ["From Coq Require Import NArith List.", "Import ListNotations.", ""]
    m = find1(r"using\s+call_t\s*=\s*std::array\s*<\s*char\s*,\s*(\d+)\s*>", h, "call_t")
    call_size = int(m.group(1))
    m = find1(r"using\s+encoded_call_t\s*=\s*std::array\s*<\s*uint8_t\s*,\s*(\d+)\s*>", h, "encoded_call_t")
    enc_size = int(m.group(1))
    m = find1(r"encoded_call_t\s+BROADCAST_ADDRESS\s*=\s*\{([^}]*)\}", h, "BROADCAST_ADDRESS")
    baddr = [cint(t) for t in m.group(1).split(",") if t.strip()]
    m = find1(r"call_t\s+BROADCAST_CALL\s*=\s*\{([^}]*)\}", h, "BROADCAST_CALL")
    bcall = [chr_code(t) for t in re.findall(r"'\\?.'|[0-9a-fA-FxX]+", m.group(1))]
    if len(baddr) != enc_size or len(bcall) != call_size:
        raise AnchorError("broadcast constants do not fill their arrays")
    # ---- encode_callsign
    e = find1(r"static\s+encoded_call_t\s+encode_callsign\s*\(\s*call_t\s+callsign\s*,\s*bool\s+strict\s*=\s*false\s*\)\s*\{(.*?)\n    \}", h,
              "encode_callsign body").group(1)
    find1(r"uint64_t\s+encoded\s*=\s*0\s*;", e, "uint64_t encoded = 0")
    find1(r"std::reverse\s*\(\s*callsign\.begin\(\)\s*,\s*callsign\.end\(\)\s*\)\s*;\s*for\s*\(\s*auto\s+c\s*:\s*callsign\s*\)", e,
          "reverse, then loop over callsign")
    enc_mul = cint(find1(r"for\s*\(\s*auto\s+c\s*:\s*callsign\s*\)\s*\{\s*encoded\s*\*=\s*(\w+)\s*;", e, "encoded *= 40 first in the loop").group(1))
    chain = e[e.index("encoded *="):]
    ranges = []
    pos = 0
    # the chain in source order: ranges "c >= 'A' and c <= 'Z'" with "encoded += c - 'A' + k", singles "c == '-'" with "encoded += k"
    pat = re.compile(
        r"(?:else\s+)?if\s*\(\s*c\s*>=\s*('.')\s*(?:and|&&)\s*c\s*<=\s*('.')\s*\)\s*\{\s*encoded\s*\+=\s*c\s*-\s*('.')\s*\+\s*(\d+)\s*;\s*\}"
        r"|else\s+if\s*\(\s*c\s*==\s*('.')\s*\)\s*\{\s*encoded\s*\+=\s*(\d+)\s*;\s*\}"
        r"|else\s+if\s*\(\s*strict\s*\)\s*\{\s*throw\s+std::invalid_argument\s*\([^)]*\)\s*;\s*\}")
    seen_strict = False
    p = chain.index(";") + 1
    while True:
        m = pat.match(chain, _skip_ws(chain, p))
        if not m:
            break
        if m.group(1):
            lo, hi, sub, k = chr_code(m.group(1)), chr_code(m.group(2)), chr_code(m.group(3)), int(m.group(4))
            if sub != lo:
                raise AnchorError("range branch subtracts a different character than its lower bound")
            ranges.append((lo, hi, k))
        elif m.group(5):
            c = chr_code(m.group(5))
            ranges.append((c, c, int(m.group(6))))
        else:
            seen_strict = True
        p = m.end()
    rest = chain[_skip_ws(chain, p):]
    if not seen_strict or not ranges or not re.match(r"\}\s*const\s+auto\s+p\s*=\s*reinterpret_cast\s*<\s*uint8_t\s*\*\s*>\s*\(\s*&encoded\s*\)\s*;", rest):
        raise AnchorError("encode_callsign: if/else-if chain not recognised (" + rest[:60].replace("\n", " ") + ")")
    m = find1(r"std::copy\s*\(\s*p\s*,\s*p\s*\+\s*(\d+)\s*,\s*result\.rbegin\(\)\s*\)\s*;", e, "copy of the low bytes")
    enc_copy = int(m.group(1))
    # ---- decode_callsign
    d = find1(r"static\s+call_t\s+decode_callsign\s*\(\s*encoded_call_t\s+callsign\s*,\s*bool\s+strict\s*=\s*false\s*\)\s*\{(.*?)\n    \}", raw,
              "decode_callsign body").group(1)
    m = find1(r'static\s+const\s+char\s+callsign_map\[\]\s*=\s*"([^"\\]*)"\s*;', d, "callsign_map")
    table = [ord(c) for c in m.group(1)] + [0]      # the string literal's terminating NUL is part of the array
    d = strip_cpp_comments(d)
    find1(r"if\s*\(\s*callsign\s*==\s*BROADCAST_ADDRESS\s*\)\s*\{\s*result\s*=\s*BROADCAST_CALL\s*;\s*return\s+result\s*;\s*\}", d, "broadcast test")
    find1(r"uint64_t\s+encoded\s*=\s*0\s*;.*?std::copy\s*\(\s*callsign\.rbegin\(\)\s*,\s*callsign\.rend\(\)\s*,\s*p\s*\)\s*;", d, "little-endian reassembly")
    find1(r"result\.fill\s*\(\s*0\s*\)\s*;\s*size_t\s+index\s*=\s*0\s*;", d, "result.fill(0); index = 0")
    m = find1(r"while\s*\(\s*encoded\s*(?:&&\s*index\s*!=\s*result\.size\(\)\s*-\s*(\d+)\s*)?\)\s*\{\s*"
              r"result\s*\[\s*index\+\+\s*\]\s*=\s*callsign_map\s*\[\s*encoded\s*%\s*(\d+)\s*\]\s*;\s*encoded\s*/=\s*(\d+)\s*;\s*\}", d,
              "decode digit loop")
    bound = m.group(1)
    dec_mod, dec_div = int(m.group(2)), int(m.group(3))
    out.append(f"Definition call_size : nat := {call_size}.")
    out.append(f"Definition enc_size : nat := {enc_size}.")
    out.append(f"Definition enc_copy : nat := {enc_copy}.   (* std::copy(p, p + {enc_copy}, result.rbegin()) *)")
    out.append("Definition broadcast_address : list N := [" + "; ".join(map(str, baddr)) + "]%N.")
    out.append("Definition broadcast_call : list N := [" + "; ".join(map(str, bcall)) + "]%N.")
    out.append("(* callsign_map[], including the string literal's terminating NUL *)")
    out.append("Definition callsign_map : list N := [" + "; ".join(map(str, table)) + "]%N.")
    out.append("(* the if/else-if chain of encode_callsign in source order: (lo, hi, k) stands for  lo <= c <= hi -> encoded += c - lo + k *)")
    out.append("Definition enc_ranges : list (N * N * N) := [" + "; ".join(f"({a}, {b}, {k})" for a, b, k in ranges) + "]%N.")
    out.append(f"Definition enc_mul : N := {enc_mul}%N.")
    out.append(f"Definition dec_mod : N := {dec_mod}%N.")
    out.append(f"Definition dec_div : N := {dec_div}%N.")
    out.append("(* decode loop: while (encoded && index != result.size() - k) -> Some k; while (encoded) -> None *)")
    out.append("Definition dec_index_reserve : option nat := " + (f"Some {int(bound)}" if bound is not None else "None") + ".")
    return "\n".join(out) + "\n"


def _skip_ws(s, p):
    while p < len(s) and s[p].isspace():
        p += 1
    return p
