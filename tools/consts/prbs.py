"""Constants of struct PRBS9 (include/m17cxx/Util.h): mask, taps, lock/unlock thresholds, member widths and initial values,
history size, the window length and index arithmetic of count_errors; and the number of PRBS bits per BERT frame as
m17-mod builds it and m17-demod consumes it."""
import re
from vlib import read, strip_cpp_comments, find1, findall, cint, AnchorError

WIDTH = {"uint8_t": 8, "uint16_t": 16, "uint32_t": 32, "uint64_t": 64, "size_t": 64}


def generate(repo):
    u = strip_cpp_comments(read(repo, "include/m17cxx/Util.h"))
    body = find1(r"struct\s+PRBS9\s*\{(.*?)\n\};", u, "struct PRBS9").group(1)
    out = ["From Coq Require Import NArith List.", "Import ListNotations.", ""]
    for name in ("MASK", "TAP_1", "TAP_2", "LOCK_COUNT", "UNLOCK_COUNT"):
        m = find1(r"static\s+constexpr\s+\w+\s+%s\s*=\s*([^;]+);" % name, body, f"PRBS9::{name}")
        out.append(f"Definition prbs_{name} : N := {cint(m.group(1))}%N.")
    # members: type, name, initial value
    for name, dflt in (("state", None), ("sync_count", None), ("bit_count", None), ("err_count", None), ("hist_count", None), ("hist_pos", None)):
        m = find1(r"\b(uint8_t|uint16_t|uint32_t|uint64_t|size_t)\s+%s\s*=\s*(\w+)\s*;" % name, body, f"member {name}")
        out.append(f"Definition prbs_{name}_bits : N := {WIDTH[m.group(1)]}%N.")
        out.append(f"Definition prbs_{name}_init : N := {cint(m.group(2))}%N.")
    m = find1(r"\bbool\s+synced\s*=\s*(true|false)\s*;", body, "member synced")
    out.append(f"Definition prbs_synced_init : bool := {m.group(1)}.")
    m = find1(r"std::array\s*<\s*uint8_t\s*,\s*(\d+)\s*>\s*history\s*;", body, "member history")
    out.append(f"Definition prbs_history_size : nat := {int(m.group(1))}.")
    # count_errors: byte index shift, bit mask, wrap
    ce = find1(r"void\s+count_errors\s*\(\s*bool\s+\w+\s*\)\s*\{(.*?)\n    \}", body, "count_errors body").group(1)
    sh = set(findall(r"history\s*\[\s*hist_pos\s*>>\s*(\d+)\s*\]", ce, "history[hist_pos >> k]", min_count=3))
    mk = set(findall(r"\(\s*1\s*<<\s*\(\s*hist_pos\s*&\s*(\d+)\s*\)\s*\)", ce, "(1 << (hist_pos & k))", min_count=3))
    if len(sh) != 1 or len(mk) != 1:
        raise AnchorError("count_errors uses different byte shifts / bit masks at its three history accesses: %s %s" % (sh, mk))
    out.append(f"Definition prbs_hist_byte_shift : N := {int(sh.pop())}%N.")
    out.append(f"Definition prbs_hist_bit_mask : N := {int(mk.pop())}%N.")
    m = find1(r"if\s*\(\s*\+\+hist_pos\s*==\s*(\d+)\s*\)\s*hist_pos\s*=\s*(\d+)\s*;", ce, "hist_pos wrap")
    out.append(f"Definition prbs_hist_len : N := {int(m.group(1))}%N.")
    out.append(f"Definition prbs_hist_wrap_to : N := {int(m.group(2))}%N.")
    # reset(): the value the register is reset to
    rs = find1(r"void\s+reset\s*\(\s*\)\s*\{(.*?)\n    \}", body, "reset body").group(1)
    m = find1(r"\bstate\s*=\s*(\w+)\s*;", rs, "reset: state = 1")
    out.append(f"Definition prbs_reset_state : N := {cint(m.group(1))}%N.")
    # reset(): which members it assigns and to what (a member it does not mention keeps its old value in the model)
    def reset_field(name, what):
        mm = re.search(r"\b" + name + r"\s*=\s*(\w+)\s*;", rs)
        if not mm:
            return "None"
        v = mm.group(1)
        v = {"false": 0, "true": 1}.get(v, None) if v in ("false", "true") else cint(v)
        return f"(Some {v}%N)"
    for name in ("synced", "sync_count", "bit_count", "err_count", "hist_count", "hist_pos"):
        out.append(f"Definition prbs_reset_{name} : option N := {reset_field(name, name)}.")
    hf = re.search(r"\bhistory\.fill\s*\(\s*(\w+)\s*\)\s*;", rs)
    out.append(f"Definition prbs_reset_history_fill : option N := {('(Some %d%%N)' % cint(hf.group(1))) if hf else 'None'}.")
    # BERT frame size at the producer and at the consumer
    md = strip_cpp_comments(read(repo, "apps/m17-mod.cpp"))
    f = find1(r"make_bert_frame\s*\(\s*PRBS\s*&\s*\w+\s*\)\s*\{(.*?)std::array\s*<\s*uint8_t\s*,\s*402\s*>", md, "make_bert_frame data generation").group(1)
    n = int(find1(r"std::array\s*<\s*uint8_t\s*,\s*(\d+)\s*>\s*data\s*;", f, "bert data array").group(1))
    loops = [int(x) for x in findall(r"for\s*\(\s*int\s+i\s*=\s*0\s*;\s*i\s*!=\s*(\d+)\s*;\s*\+\+i\s*\)\s*\{\s*byte\s*<<=\s*1\s*;\s*byte\s*\|=\s*\w+\.generate\(\)\s*;", f,
                                     "generate loops in make_bert_frame", min_count=2)]
    find1(r"i\s*!=\s*data\.size\(\)\s*-\s*1\s*;", f, "full-byte loop bound data.size() - 1")
    out.append(f"Definition bert_bits_mod : nat := {(n - 1) * loops[0] + loops[1]}.   (* m17-mod: {n - 1} bytes of {loops[0]} bits + {loops[1]} bits *)")
    dm = strip_cpp_comments(read(repo, "apps/m17-demod.cpp"))
    f = find1(r"bool\s+decode_bert\s*\([^)]*\)\s*\{(.*?)return\s+true\s*;", dm, "m17-demod decode_bert").group(1)
    nb = int(find1(r"for\s*\(\s*int\s+j\s*=\s*0\s*;\s*j\s*!=\s*(\d+)\s*;", f, "byte loop").group(1))
    il = [int(x) for x in findall(r"for\s*\(\s*int\s+i\s*=\s*0\s*;\s*i\s*!=\s*(\d+)\s*;\s*\+\+i\s*\)\s*\{\s*prbs\.validate\(", f, "validate loops", min_count=2)]
    out.append(f"Definition bert_bits_demod : nat := {nb * il[0] + il[1]}.   (* m17-demod: {nb} bytes of {il[0]} bits + {il[1]} bits *)")
    return "\n".join(out) + "\n"
