"""Constants of the transmit path of apps/m17-mod.cpp (USE_OLD_MODULATOR main) and of the headers it uses,
read from the repository's current text by anchored regular expressions.  -> coq/gen/ConstsMod.v

Everything ImplMod.v needs that is a literal, a template argument, an array size or a loop bound in the
source is taken from here, so that a changed literal changes the model (and the theorems are re-proved or
break).  Two *structural* facts are also read, because a candidate repair flips exactly them:
  mod_filter_per_instantiation : the RRC filter object is a function-local static INSIDE the template
                                 symbols_to_baseband<N> (one filter per N)            -- F9
  mod_audio_zero_init          : transmit()'s audio buffer is value-initialised / filled before the loop
"""
import re
from fractions import Fraction
from vlib import read, strip_cpp_comments, find1, findall, cint, AnchorError


def body_after(src, header_re, what):
    """text of the brace-balanced block that follows the first match of header_re"""
    m = find1(header_re, src, what)
    i = src.find("{", m.end() - 1 if src[m.end() - 1] == "{" else m.end())
    if i < 0:
        raise AnchorError(f"no body for {what}")
    depth, j = 0, i
    while j < len(src):
        if src[j] == "{":
            depth += 1
        elif src[j] == "}":
            depth -= 1
            if depth == 0:
                return src[i:j + 1], m.start(), j + 1
        j += 1
    raise AnchorError(f"unbalanced body for {what}")


def arr2(src, name):
    m = find1(r"constexpr\s+std::array\s*<\s*uint8_t\s*,\s*2\s*>\s+%s\s*=\s*\{\s*([^,}]+),\s*([^}]+?)\s*\}" % name, src, name)
    return [cint(m.group(1)), cint(m.group(2))]


def Nl(xs):
    return "[" + "; ".join(str(x) for x in xs) + "]%N"


def natl(xs):
    return "[" + "; ".join(str(x) for x in xs) + "]%nat"


def polys_in(body, what):
    ps = findall(r"convolve_bit\s*\(\s*([0-9a-fA-Fx]+)\s*,\s*memory\s*\)", body, f"convolve_bit sites in {what}", min_count=2)
    if len(ps) % 2:
        raise AnchorError(f"odd number of convolve_bit calls in {what}")
    return [(cint(ps[i]), cint(ps[i + 1])) for i in range(0, len(ps), 2)]


def mem_k(body, what):
    ks = set(findall(r"update_memory\s*<\s*(\d+)\s*>", body, f"update_memory<K> in {what}"))
    if len(ks) != 1:
        raise AnchorError(f"update_memory<K> not uniform in {what}")
    return int(ks.pop())


def generate(repo):
    src = strip_cpp_comments(read(repo, "apps/m17-mod.cpp"))
    o = ["From Coq Require Import NArith ZArith List Bool.", "Import ListNotations.", ""]

    def d(name, typ, val, comment=None):
        o.append(f"Definition {name} : {typ} := {val}." + (f"  (* {comment} *)" if comment else ""))

    # ------------------------------------------------------------------ RRC taps (exact dyadic value of every double literal)
    m = find1(r"const\s+auto\s+rrc_taps\s*=\s*std::array\s*<\s*double\s*,\s*(\d+)\s*>\s*\{([^}]*)\}", src, "rrc_taps")
    ntaps = int(m.group(1))
    lits = [t.strip() for t in m.group(2).split(",") if t.strip()]
    if len(lits) != ntaps:
        raise AnchorError(f"rrc_taps: {len(lits)} literals for std::array<double,{ntaps}>")
    fr = [Fraction(float(t)) for t in lits]
    k = max(f.denominator.bit_length() - 1 for f in fr)
    nums = [int(f * (1 << k)) for f in fr]
    assert all(Fraction(n, 1 << k) == f for n, f in zip(nums, fr))
    d("rrc_den_log2", "N", f"{k}%N", "every tap below is (numerator / 2^rrc_den_log2), the exact value of the double literal")
    o.append("Definition rrc_taps_num : list Z := [" + "; ".join(f"({n})" if n < 0 else str(n) for n in nums) + "]%Z.")
    d("rrc_ntaps", "nat", ntaps)

    # ------------------------------------------------------------------ globals, symbol map
    m = find1(r"int8_t\s+can\s*=\s*(\d+)\s*;", src, "global can")
    d("can_default", "N", f"{cint(m.group(1))}%N")
    b, _, _ = body_after(src, r"int8_t\s+bits_to_symbol\s*\(\s*uint8_t\s+bits\s*\)", "bits_to_symbol")
    cases = findall(r"case\s+(\d+)\s*:\s*return\s+(-?\d+)\s*;", b, "bits_to_symbol cases", min_count=4)
    tab = {int(a): int(v) for a, v in cases}
    if sorted(tab) != [0, 1, 2, 3]:
        raise AnchorError("bits_to_symbol: cases 0..3 expected")
    o.append("Definition symbol_table : list Z := [" + "; ".join(f"({tab[i]})" if tab[i] < 0 else str(tab[i]) for i in range(4)) + "]%Z.  (* bits_to_symbol: dibit value -> symbol *)")

    # ------------------------------------------------------------------ symbols_to_baseband
    tb, t0, t1 = body_after(src, r"template\s*<\s*size_t\s+N\s*>\s*std::array\s*<\s*int16_t\s*,\s*N\s*\*\s*(\d+)\s*>\s*symbols_to_baseband\s*\(", "symbols_to_baseband<N>")
    sps = int(find1(r"std::array\s*<\s*int16_t\s*,\s*N\s*\*\s*(\d+)\s*>\s*symbols_to_baseband", src, "samples per symbol").group(1))
    sps2 = int(find1(r"baseband\s*\[\s*i\s*\*\s*(\d+)\s*\]\s*=\s*symbols\s*\[\s*i\s*\]", tb, "baseband[i*10] = symbols[i]").group(1))
    if sps != sps2:
        raise AnchorError("samples per symbol differ between the return type and the up-sampling loop")
    d("samples_per_symbol", "nat", sps)
    m = find1(r"b\s*=\s*rrc\s*\(\s*b\s*\)\s*\*\s*([0-9.]+)\s*\*\s*\(\s*invert\s*\?\s*(-?[0-9.]+)\s*:\s*(-?[0-9.]+)\s*\)\s*;", tb, "b = rrc(b) * scale * (invert ? -1 : 1)")
    sc, fi, fn = Fraction(m.group(1)), Fraction(m.group(2)), Fraction(m.group(3))
    if sc.denominator != 1 or fi.denominator != 1 or fn.denominator != 1:
        raise AnchorError("baseband scale / invert factors are not integers")
    d("baseband_scale", "Z", f"{int(sc)}%Z")
    d("invert_factor", "Z", f"({int(fi)})%Z")
    d("noninvert_factor", "Z", f"({int(fn)})%Z")
    # where does the filter object live?  inside the template body as a local static -> one per N
    decl = r"static\s+BaseFirFilter\s*<[^;]*>\s*(\w+)\s*=\s*makeFirFilter\s*\(\s*rrc_taps\s*\)\s*;"
    inside = re.search(decl, tb) is not None
    anywhere = re.search(r"BaseFirFilter\s*<[^;]*>\s*&?\s*\w+[^;]*makeFirFilter\s*\(\s*rrc_taps\s*\)", src) is not None
    if not anywhere:
        raise AnchorError("the RRC filter object (makeFirFilter(rrc_taps)) was not found")
    d("mod_filter_per_instantiation", "bool", "true" if inside else "false",
      "true: `static ... rrc` is local to the template symbols_to_baseband<N> (one filter state per N)")
    if re.search(r"\brrc\s*\.\s*reset\s*\(", src):
        raise AnchorError("rrc.reset() is called somewhere: the filter-state model does not cover it")

    # ------------------------------------------------------------------ output_bitstream / preamble / sync words / EOT
    b, _, _ = body_after(src, r"void\s+send_preamble\s*\(\s*\)", "send_preamble")
    m = find1(r"std::array\s*<\s*uint8_t\s*,\s*(\d+)\s*>\s+preamble_bytes\s*;\s*preamble_bytes\s*\.\s*fill\s*\(\s*([0-9a-fA-Fx]+)\s*\)", b, "preamble bytes")
    d("preamble_len", "nat", int(m.group(1)))
    d("preamble_byte", "N", f"{cint(m.group(2))}%N")
    for cname, coq in (("SYNC_WORD", "sync_unused"), ("LSF_SYNC_WORD", "sync_lsf"), ("STREAM_SYNC_WORD", "sync_stream"),
                       ("PACKET_SYNC_WORD", "sync_packet_unused"), ("BERT_SYNC_WORD", "sync_bert"), ("EOT_SYNC", "eot_sync")):
        d(coq, "list N", Nl(arr2(src, cname)))
    m = find1(r"using\s+bitstream_t\s*=\s*std::array\s*<\s*int8_t\s*,\s*(\d+)\s*>", src, "bitstream_t")
    d("frame_bits", "nat", int(m.group(1)))
    b, _, _ = body_after(src, r"void\s+output_baseband\s*\(", "output_baseband")
    m = find1(r"std::array\s*<\s*int8_t\s*,\s*(\d+)\s*>\s+temp\s*;", b, "output_baseband temp")
    d("frame_symbols", "nat", int(m.group(1)), "N of symbols_to_baseband<N> for a frame")
    b, _, _ = body_after(src, r"void\s+output_eot\s*\(\s*\)", "output_eot")
    m = find1(r"for\s*\(\s*size_t\s+i\s*=\s*0\s*;\s*i\s*!=\s*(\d+)\s*;\s*\+\+i\s*\)\s*std::cout\s*<<\s*'\\0'", b, "EOT zero bytes (bitstream)")
    d("eot_zero_bytes", "nat", int(m.group(1)))
    m = find1(r"std::array\s*<\s*int8_t\s*,\s*(\d+)\s*>\s+out_symbols\s*;\s*out_symbols\s*\.\s*fill\s*\(\s*(\d+)\s*\)", b, "EOT out_symbols")
    d("eot_symbols", "nat", int(m.group(1)), "N of symbols_to_baseband<N> for the EOT block")
    d("eot_fill_symbol", "Z", f"{int(m.group(2))}%Z")
    find1(r"bytes_to_symbols\s*\(\s*EOT_SYNC\s*\)", b, "EOT symbols from EOT_SYNC")

    # ------------------------------------------------------------------ send_lsf
    b, _, _ = body_after(src, r"lsf_t\s+send_lsf\s*\(", "send_lsf")
    m = find1(r"using\s+lsf_t\s*=\s*std::array\s*<\s*uint8_t\s*,\s*(\d+)\s*>", src, "lsf_t")
    d("lsf_len", "nat", int(m.group(1)))
    m = find1(r"encoded_call_t\s+encoded_dest\s*=\s*\{([^}]*)\}", b, "broadcast default")
    d("lsf_broadcast", "list N", Nl([cint(t) for t in m.group(1).split(",")]))
    find1(r"if\s*\(\s*!\s*dest\s*\.\s*empty\s*\(\s*\)\s*\)", b, "if (!dest.empty())")
    m = find1(r"if\s*\(\s*type\s*==\s*FrameType::AUDIO\s*\)\s*\{\s*result\s*\[\s*(\d+)\s*\]\s*=\s*can\s*>>\s*(\d+)\s*;\s*"
              r"result\s*\[\s*(\d+)\s*\]\s*=\s*(\d+)\s*\|\s*\(\s*\(\s*can\s*&\s*(\d+)\s*\)\s*<<\s*(\d+)\s*\)\s*;", b, "CAN packing (AUDIO)")
    g = [int(x) for x in m.groups()]
    d("lsf_type_hi_index", "nat", g[0]); d("can_hi_shift", "N", f"{g[1]}%N")
    d("lsf_type_lo_index", "nat", g[2]); d("type_lo_audio", "N", f"{g[3]}%N"); d("can_lo_mask", "N", f"{g[4]}%N"); d("can_lo_shift", "N", f"{g[5]}%N")
    m = find1(r"else\s+if\s*\(\s*type\s*==\s*FrameType::BERT\s*\)\s*\{\s*result\s*\[\s*(\d+)\s*\]\s*=\s*(\d+)\s*;\s*result\s*\[\s*(\d+)\s*\]\s*=\s*(\d+)\s*;", b, "TYPE bytes (BERT)")
    g = [int(x) for x in m.groups()]
    if (g[0], g[2]) != (int(re.search(r"lsf_type_hi_index : nat := (\d+)", "\n".join(o)).group(1)), int(re.search(r"lsf_type_lo_index : nat := (\d+)", "\n".join(o)).group(1))):
        raise AnchorError("BERT branch writes other indices than the AUDIO branch")
    d("type_hi_bert", "N", f"{g[1]}%N"); d("type_lo_bert", "N", f"{g[3]}%N")
    m = find1(r"CRC16\s*<\s*([^,>]+),\s*([^>]+)>\s*crc\s*;", b, "CRC16 instantiation in send_lsf")
    d("lsf_crc_poly", "N", f"{cint(m.group(1))}%N"); d("lsf_crc_init", "N", f"{cint(m.group(2))}%N")
    m = find1(r"crc\s*\.\s*reset\s*\(\s*\)\s*;\s*for\s*\(\s*size_t\s+i\s*=\s*0\s*;\s*i\s*!=\s*(\d+)\s*;\s*\+\+i\s*\)\s*\{\s*crc\s*\(\s*result\s*\[\s*i\s*\]\s*\)\s*;\s*\}", b, "CRC loop over the LSF")
    d("lsf_crc_span", "nat", int(m.group(1)))
    m = find1(r"result\s*\[\s*(\d+)\s*\]\s*=\s*checksum\s*\[\s*0\s*\]\s*;\s*result\s*\[\s*(\d+)\s*\]\s*=\s*checksum\s*\[\s*1\s*\]\s*;", b, "checksum bytes")
    d("lsf_crc_hi_index", "nat", int(m.group(1))); d("lsf_crc_lo_index", "nat", int(m.group(2)))
    m = find1(r"std::array\s*<\s*uint8_t\s*,\s*(\d+)\s*>\s+encoded\s*;", b, "send_lsf encoded[]")
    d("lsf_encoded_len", "nat", int(m.group(1)))
    m = find1(r"std::array\s*<\s*int8_t\s*,\s*(\d+)\s*>\s+punctured\s*;\s*auto\s+size\s*=\s*puncture\s*\(\s*encoded\s*,\s*punctured\s*,\s*(\w+)\s*\)", b, "send_lsf puncture")
    d("lsf_punctured_len", "nat", int(m.group(1)))
    lsf_p = m.group(2)
    find1(r"interleaver\s*\.\s*interleave\s*\(\s*punctured\s*\)\s*;\s*randomizer\s*\.\s*randomize\s*\(\s*punctured\s*\)\s*;\s*output_frame\s*\(\s*LSF_SYNC_WORD\s*,\s*punctured\s*\)", b, "send_lsf: interleave, randomize, output_frame(LSF_SYNC_WORD)")
    lsf_polys = polys_in(b, "send_lsf")
    d("lsf_polys", "list (N * N)", "[" + "; ".join(f"({p}, {q})" for p, q in lsf_polys) + "]%N", "(convolve_bit poly 1, poly 2) at the data loop and at the flush loop")
    d("lsf_mem_k", "nat", mem_k(b, "send_lsf"))
    fl = findall(r"for\s*\(\s*size_t\s+i\s*=\s*0\s*;\s*i\s*!=\s*(\d+)\s*;\s*\+\+i\s*\)\s*\{\s*memory\s*=\s*mobilinkd::update_memory\s*<\s*\d+\s*>\s*\(\s*memory\s*,\s*0\s*\)", src, "flush loops", min_count=3)
    if len(set(fl)) != 1:
        raise AnchorError("flush loops differ in length")
    d("flush_bits", "nat", int(fl[0]))
    bl = findall(r"for\s*\(\s*size_t\s+[ij]\s*=\s*0\s*;\s*[ij]\s*!=\s*(\d+)\s*;\s*\+\+[ij]\s*\)\s*\{\s*uint32_t\s+x\s*=\s*\(\s*b\s*&\s*0x80\s*\)\s*>>\s*7\s*;\s*b\s*<<=\s*1\s*;", src, "bit loops (x = (b & 0x80) >> 7; b <<= 1)", min_count=4)
    d("bit_loop_bounds", "list nat", natl(int(x) for x in bl), "send_lsf, make_data_frame, make_bert_frame (bytes), make_bert_frame (last byte)")

    # ------------------------------------------------------------------ make_data_frame
    b, _, _ = body_after(src, r"data_frame_t\s+make_data_frame\s*\(", "make_data_frame")
    m = find1(r"using\s+data_frame_t\s*=\s*std::array\s*<\s*int8_t\s*,\s*(\d+)\s*>", src, "data_frame_t")
    d("data_frame_len", "nat", int(m.group(1)))
    m = find1(r"using\s+codec_frame_t\s*=\s*std::array\s*<\s*uint8_t\s*,\s*(\d+)\s*>", src, "codec_frame_t")
    d("codec_frame_len", "nat", int(m.group(1)))
    m = find1(r"std::array\s*<\s*uint8_t\s*,\s*(\d+)\s*>\s+data\s*;", b, "make_data_frame data[]")
    d("stream_data_len", "nat", int(m.group(1)))
    find1(r"data\s*\[\s*0\s*\]\s*=\s*uint8_t\s*\(\s*\(\s*frame_number\s*>>\s*8\s*\)\s*&\s*0xFF\s*\)\s*;\s*data\s*\[\s*1\s*\]\s*=\s*uint8_t\s*\(\s*frame_number\s*&\s*0xFF\s*\)\s*;\s*"
          r"std::copy\s*\(\s*payload\.begin\(\)\s*,\s*payload\.end\(\)\s*,\s*data\.begin\(\)\s*\+\s*2\s*\)", b, "make_data_frame: FN big-endian then payload at +2")
    m = find1(r"std::array\s*<\s*uint8_t\s*,\s*(\d+)\s*>\s+encoded\s*;", b, "make_data_frame encoded[]")
    d("stream_encoded_len", "nat", int(m.group(1)))
    m = find1(r"puncture\s*\(\s*encoded\s*,\s*punctured\s*,\s*mobilinkd::(\w+)\s*\)", b, "make_data_frame puncture")
    stream_p = m.group(1)
    d("stream_polys", "list (N * N)", "[" + "; ".join(f"({p}, {q})" for p, q in polys_in(b, "make_data_frame")) + "]%N")
    d("stream_mem_k", "nat", mem_k(b, "make_data_frame"))

    # ------------------------------------------------------------------ make_bert_frame
    b, _, _ = body_after(src, r"bitstream_t\s+make_bert_frame\s*\(", "make_bert_frame")
    m = find1(r"std::array\s*<\s*uint8_t\s*,\s*(\d+)\s*>\s+data\s*;", b, "make_bert_frame data[]")
    d("bert_data_len", "nat", int(m.group(1)))
    m = find1(r"for\s*\(\s*int\s+i\s*=\s*0\s*;\s*i\s*!=\s*(\d+)\s*;\s*\+\+i\s*\)\s*\{\s*byte\s*<<=\s*1\s*;\s*byte\s*\|=\s*prbs\.generate\(\)\s*;\s*\}\s*data\s*\[\s*i\s*\]\s*=\s*byte", b, "BERT full-byte generation")
    d("bert_byte_bits", "nat", int(m.group(1)))
    m = find1(r"for\s*\(\s*int\s+i\s*=\s*0\s*;\s*i\s*!=\s*(\d+)\s*;\s*\+\+i\s*\)\s*\{\s*byte\s*<<=\s*1\s*;\s*byte\s*\|=\s*prbs\.generate\(\)\s*;\s*\}\s*byte\s*<<=\s*(\d+)\s*;\s*data\s*\[\s*(\d+)\s*\]\s*=\s*byte", b, "BERT last partial byte")
    d("bert_tail_bits", "nat", int(m.group(1))); d("bert_tail_shift", "N", f"{int(m.group(2))}%N"); d("bert_tail_index", "nat", int(m.group(3)))
    m = find1(r"std::array\s*<\s*uint8_t\s*,\s*(\d+)\s*>\s+encoded\s*;", b, "make_bert_frame encoded[]")
    d("bert_encoded_len", "nat", int(m.group(1)))
    m = find1(r"puncture\s*\(\s*encoded\s*,\s*punctured\s*,\s*mobilinkd::(\w+)\s*\)", b, "make_bert_frame puncture")
    bert_p = m.group(1)
    d("bert_polys", "list (N * N)", "[" + "; ".join(f"({p}, {q})" for p, q in polys_in(b, "make_bert_frame")) + "]%N")
    d("bert_mem_k", "nat", mem_k(b, "make_bert_frame"))

    # ------------------------------------------------------------------ puncture matrices (Trellis.h)
    tr = strip_cpp_comments(read(repo, "include/m17cxx/Trellis.h"))
    m = find1(r"make_p1\s*\(\s*\)\s*\{\s*std::array\s*<\s*int8_t\s*,\s*(\d+)\s*>\s*result\s*\{\s*\}\s*;\s*for\s*\(\s*size_t\s+i\s*=\s*0\s*,\s*j\s*=\s*(\d+)\s*;\s*i\s*!=\s*(\d+)\s*;\s*\+\+i\s*\)\s*\{\s*"
              r"if\s*\(\s*i\s*==\s*j\s*\)\s*\{\s*result\s*\[\s*i\s*\]\s*=\s*0\s*;\s*j\s*\+=\s*(\d+)\s*;\s*\}\s*else\s*\{\s*result\s*\[\s*i\s*\]\s*=\s*1\s*;", tr, "make_p1")
    if m.group(1) != m.group(3):
        raise AnchorError("make_p1: array size and loop bound differ")
    d("p1_len", "nat", int(m.group(1))); d("p1_first_zero", "nat", int(m.group(2))); d("p1_stride", "nat", int(m.group(4)))
    mats = {}
    for nm in ("P2", "P3"):
        m = find1(r"inline\s+constexpr\s+auto\s+%s\s*=\s*std::array\s*<\s*int8_t\s*,\s*(\d+)\s*>\s*\{([^}]*)\}" % nm, tr, nm)
        vals = [cint(t) for t in m.group(2).split(",")]
        if len(vals) != int(m.group(1)):
            raise AnchorError(f"{nm}: wrong number of entries")
        mats[nm] = vals
        d(nm.lower() + "_matrix", "list bool", "[" + "; ".join("true" if v else "false" for v in vals) + "]")
    find1(r"inline\s+constexpr\s+auto\s+P1\s*=\s*make_p1\s*\(\s*\)", tr, "P1 = make_p1()")
    sel = {"P1": 1, "P2": 2, "P3": 3}
    for nm, p in (("lsf", lsf_p), ("stream", stream_p), ("bert", bert_p)):
        if p not in sel:
            raise AnchorError(f"unknown puncture matrix {p} in {nm}")
        d(nm + "_puncture_matrix", "nat", sel[p], "1 = P1 (make_p1), 2 = P2, 3 = P3")

    # ------------------------------------------------------------------ interleaver / randomizer instantiations in m17-mod.cpp
    il = findall(r"PolynomialInterleaver\s*<\s*(\d+)\s*,\s*(\d+)\s*,\s*(\d+)\s*>\s+interleaver\s*;", src, "interleaver instantiations", min_count=3)
    if len(set(il)) != 1:
        raise AnchorError("interleaver instantiations differ")
    d("il_f1", "N", f"{int(il[0][0])}%N"); d("il_f2", "N", f"{int(il[0][1])}%N"); d("il_k", "nat", int(il[0][2]))
    d("il_sites", "nat", len(il))
    rn = findall(r"M17Randomizer\s*<\s*(\d+)\s*>\s+randomizer\s*;", src, "randomizer instantiations", min_count=3)
    if len(set(rn)) != 1:
        raise AnchorError("randomizer instantiations differ")
    d("rnd_n", "nat", int(rn[0]))
    rh = strip_cpp_comments(read(repo, "include/m17cxx/M17Randomizer.h"))
    m = find1(r"inline\s+auto\s+DC\s*=\s*std::array\s*<\s*uint8_t\s*,\s*(\d+)\s*>\s*\{([^}]*)\}", rh, "detail::DC")
    dc = [cint(t) for t in m.group(2).split(",")]
    if len(dc) != int(m.group(1)):
        raise AnchorError("DC: wrong number of entries")
    d("rnd_dc", "list N", Nl(dc))
    ih = strip_cpp_comments(read(repo, "include/m17cxx/PolynomialInterleaver.h"))
    find1(r"return\s*\(\s*\(\s*F1\s*\*\s*i\s*\)\s*\+\s*\(\s*F2\s*\*\s*i\s*\*\s*i\s*\)\s*\)\s*%\s*K\s*;", ih, "interleaver index()")

    # ------------------------------------------------------------------ Golay, LICH
    gh = strip_cpp_comments(read(repo, "include/m17cxx/Golay24.h"))
    m = find1(r"constexpr\s+uint16_t\s+POLY\s*=\s*([0-9a-fA-Fx]+)\s*;", gh, "Golay24::POLY")
    d("golay_poly", "N", f"{cint(m.group(1))}%N")
    gb, _, _ = body_after(gh, r"constexpr\s+uint32_t\s+encode23\s*\(\s*uint16_t\s+data\s*\)", "encode23")
    m = find1(r"for\s*\(\s*size_t\s+i\s*=\s*0\s*;\s*i\s*!=\s*(\d+)\s*;\s*\+\+i\s*\)", gb, "encode23 loop")
    d("golay_steps", "nat", int(m.group(1)))
    m = find1(r"return\s+codeword\s*\|\s*\(\s*data\s*<<\s*(\d+)\s*\)\s*;", gb, "encode23 return")
    d("golay_data_shift", "N", f"{int(m.group(1))}%N")
    gb, _, _ = body_after(gh, r"constexpr\s+uint32_t\s+encode24\s*\(\s*uint16_t\s+data\s*\)", "encode24")
    find1(r"return\s*\(\s*\(\s*codeword\s*<<\s*1\s*\)\s*\|\s*parity\s*\(\s*codeword\s*\)\s*\)\s*;", gb, "encode24 return")
    m = find1(r"using\s+lich_segment_t\s*=\s*std::array\s*<\s*uint8_t\s*,\s*(\d+)\s*>", src, "lich_segment_t")
    d("lich_bits", "nat", int(m.group(1)))
    m = find1(r"using\s+lich_t\s*=\s*std::array\s*<\s*lich_segment_t\s*,\s*(\d+)\s*>", src, "lich_t")
    d("lich_segments", "nat", int(m.group(1)))
    b, _, _ = body_after(src, r"lich_segment_t\s+make_lich_segment\s*\(", "make_lich_segment")
    m = find1(r"make_lich_segment\s*\(\s*std::array\s*<\s*uint8_t\s*,\s*(\d+)\s*>\s+segment", src, "LICH segment bytes")
    d("lich_segment_bytes", "nat", int(m.group(1)))
    m = find1(r"tmp\s*=\s*segment\[0\]\s*<<\s*(\d+)\s*\|\s*\(\(segment\[1\]\s*>>\s*(\d+)\)\s*&\s*([0-9a-fA-Fx]+)\)\s*;", b, "LICH word 0")
    w0 = (int(m.group(1)), int(m.group(2)), cint(m.group(3)))
    m = find1(r"tmp\s*=\s*\(\(segment\[1\]\s*&\s*([0-9a-fA-Fx]+)\)\s*<<\s*(\d+)\)\s*\|\s*segment\[2\]\s*;", b, "LICH word 1")
    w1 = (cint(m.group(1)), int(m.group(2)))
    m = find1(r"tmp\s*=\s*segment\[3\]\s*<<\s*(\d+)\s*\|\s*\(\(segment\[4\]\s*>>\s*(\d+)\)\s*&\s*([0-9a-fA-Fx]+)\)\s*;", b, "LICH word 2")
    w2 = (int(m.group(1)), int(m.group(2)), cint(m.group(3)))
    m = find1(r"tmp\s*=\s*\(\(segment\[4\]\s*&\s*([0-9a-fA-Fx]+)\)\s*<<\s*(\d+)\)\s*\|\s*\(segment_number\s*<<\s*(\d+)\)\s*;", b, "LICH word 3")
    w3 = (cint(m.group(1)), int(m.group(2)), int(m.group(3)))
    if w0 != w2 or w1 != (w3[0], w3[1]):
        raise AnchorError("LICH nibble packing of words 0/2 or 1/3 differ")
    d("lich_hi_shift", "N", f"{w0[0]}%N"); d("lich_nib_shift", "N", f"{w0[1]}%N"); d("lich_nib_mask", "N", f"{w0[2]}%N")
    d("lich_lo_mask", "N", f"{w1[0]}%N"); d("lich_lo_shift", "N", f"{w1[1]}%N"); d("lich_number_shift", "N", f"{w3[2]}%N")
    lb = findall(r"for\s*\(\s*size_t\s+i\s*=\s*(\d+)\s*;\s*i\s*!=\s*(\d+)\s*;\s*\+\+i\s*\)\s*\{\s*result\[i\]\s*=\s*\(encoded\s*&\s*\(1\s*<<\s*(\d+)\)\)\s*!=\s*0\s*;\s*encoded\s*<<=\s*1\s*;", b, "LICH bit loops", min_count=4)
    d("lich_bit_loops", "list (nat * nat * N)", "[" + "; ".join(f"({a}%nat, {z}%nat, {t}%N)" for a, z, t in lb) + "]", "(first index, end index, tested bit) of the four unpacking loops")

    # ------------------------------------------------------------------ transmit
    b, _, _ = body_after(src, r"void\s+transmit\s*\(\s*queue_t\s*&\s*queue\s*,\s*const\s+lsf_t\s*&\s*lsf\s*\)", "transmit")
    m = find1(r"using\s+audio_frame_t\s*=\s*std::array\s*<\s*int16_t\s*,\s*(\d+)\s*>", src, "audio_frame_t")
    d("audio_frame_len", "nat", int(m.group(1)))
    eb, _, _ = body_after(src, r"codec_frame_t\s+encode\s*\(\s*struct\s+CODEC2\s*\*\s*codec2\s*,\s*const\s+audio_frame_t\s*&\s*audio\s*\)", "encode")
    m = find1(r"codec2_encode\s*\(\s*codec2\s*,\s*&result\[(\d+)\]\s*,\s*const_cast<int16_t\*>\(&audio\[(\d+)\]\)\)\s*;\s*codec2_encode\s*\(\s*codec2\s*,\s*&result\[(\d+)\]\s*,\s*const_cast<int16_t\*>\(&audio\[(\d+)\]\)\)\s*;", eb, "encode(): two codec2_encode calls")
    g = [int(x) for x in m.groups()]
    if (g[0], g[1]) != (0, 0):
        raise AnchorError("encode(): first call not at offset 0")
    d("codec_half_bytes", "nat", g[2]); d("codec_half_samples", "nat", g[3])
    find1(r"codec2_create\s*\(\s*CODEC2_MODE_3200\s*\)", b, "codec2_create(CODEC2_MODE_3200)")
    m = find1(r"std::copy\s*\(\s*lsf\.begin\(\)\s*\+\s*i\s*\*\s*(\d+)\s*,\s*lsf\.begin\(\)\s*\+\s*\(i\s*\+\s*1\)\s*\*\s*(\d+)\s*,\s*segment\.begin\(\)\s*\)\s*;\s*auto\s+lich_segment\s*=\s*make_lich_segment\s*\(\s*segment\s*,\s*i\s*\)", b, "transmit: LICH segments of the LSF")
    if m.group(1) != m.group(2):
        raise AnchorError("transmit: LICH copy strides differ")
    d("lich_stride", "nat", int(m.group(1)))
    wr = findall(r"auto\s+data\s*=\s*make_data_frame\s*\(\s*frame_number\+\+\s*,\s*encode\s*\(\s*codec2\s*,\s*audio\s*\)\s*\)\s*;\s*if\s*\(\s*frame_number\s*==\s*([0-9a-fA-Fx]+)\s*\)\s*frame_number\s*=\s*(\d+)\s*;\s*"
                 r"send_audio_frame\s*\(\s*lich\[lich_segment\+\+\]\s*,\s*data\s*\)\s*;\s*if\s*\(\s*lich_segment\s*==\s*lich\.size\(\)\s*\)\s*lich_segment\s*=\s*0\s*;", b, "transmit: frame emission (full and partial)", min_count=2)
    if len(wr) != 2 or wr[0] != wr[1]:
        raise AnchorError("transmit: the full-frame and partial-frame emission differ")
    d("fn_wrap_at", "N", f"{cint(wr[0][0])}%N"); d("fn_wrap_to", "N", f"{cint(wr[0][1])}%N")
    m = find1(r"make_data_frame\s*\(\s*frame_number\s*\|\s*([0-9a-fA-Fx]+)\s*,\s*encode\s*\(\s*codec2\s*,\s*audio\s*\)\s*\)\s*;\s*send_audio_frame\s*\(\s*lich\[lich_segment\]\s*,\s*data\s*\)\s*;\s*output_eot\s*\(\s*\)", b, "transmit: last frame")
    d("fn_eos_bit", "N", f"{cint(m.group(1))}%N")
    m = find1(r"uint16_t\s+frame_number\s*=\s*(\d+)\s*;\s*uint8_t\s+lich_segment\s*=\s*(\d+)\s*;", b, "transmit: initial counters")
    d("fn_initial", "N", f"{int(m.group(1))}%N"); d("lich_initial", "nat", int(m.group(2)))
    find1(r"if\s*\(\s*index\s*==\s*audio\.size\(\)\s*\)\s*\{\s*index\s*=\s*0\s*;", b, "transmit: frame complete test")
    find1(r"if\s*\(\s*index\s*>\s*0\s*\)", b, "transmit: partial frame test")
    if len(re.findall(r"audio\.fill\s*\(\s*0\s*\)", b)) < 2:
        raise AnchorError("transmit: audio.fill(0) after a full frame / before the last frame not found")
    # is the audio buffer defined before the first sample is stored?
    loop_at = b.find("while")
    decl_m = find1(r"audio_frame_t\s+audio\s*([^;]*);", b, "transmit: audio buffer declaration")
    init = decl_m.group(1).strip()
    zero_init = init in ("{}", "= {}", "{0}", "= {0}", "= {{}}", "{{}}") or re.search(r"audio\.fill\s*\(\s*0\s*\)", b[:loop_at]) is not None
    d("mod_audio_zero_init", "bool", "true" if zero_init else "false",
      "false: `audio_frame_t audio;` is read (by encode()) before every element was written when the first frame is partial")

    # ------------------------------------------------------------------ main
    mb, _, _ = body_after(src, r"#define\s+USE_OLD_MODULATOR\s*#ifdef\s+USE_OLD_MODULATOR\s*int\s+main\s*\(\s*int\s+argc\s*,\s*char\s*\*\s*argv\[\]\s*\)", "old-modulator main")
    find1(r"send_preamble\s*\(\s*\)\s*;\s*if\s*\(\s*!\s*config->bert\s*\)\s*\{\s*auto\s+lsf\s*=\s*send_lsf\s*\(\s*config->source_address\s*,\s*config->destination_address\s*\)\s*;", mb, "main: send_preamble(); send_lsf(src, dest)")
    find1(r"auto\s+frame\s*=\s*make_bert_frame\s*\(\s*prbs\s*\)\s*;\s*interleaver\.interleave\(frame\)\s*;\s*randomizer\.randomize\(frame\)\s*;\s*output_frame\s*\(\s*BERT_SYNC_WORD\s*,\s*frame\s*\)", mb, "main: BERT loop")
    d("bert_mode_preambles", "nat", 1 + len(re.findall(r"send_preamble\s*\(\s*\)", mb[mb.find("else"):])), "send_preamble() calls executed in BERT mode")
    return "\n".join(o) + "\n"
