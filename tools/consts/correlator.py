"""Sizes, strides and the wrap / loop tests of Correlator<FloatType> and SyncWord<Correlator> (include/m17cxx/Correlator.h),
and the closed list of assignments to sample_index / sync_sample_index in M17Demodulator.h, for the C07 index models
(coq/ImplCorrelator.v).  The comparison operators of the wrap tests and loop conditions are translated (not only anchored),
so that `==` -> `>` or `>=` -> `>` changes the model and the proofs, not just an anchor."""
import re
from vlib import read, strip_cpp_comments, find1, findall, AnchorError
from consts.app import body_of

OPS = {"==": "(a =? b)", "!=": "negb (a =? b)", "<": "(a <? b)", "<=": "(a <=? b)", ">": "(b <? a)", ">=": "(b <=? a)"}
OP_RE = r"(==|!=|<=|>=|<|>)"


def size_expr(expr, env, what):
    """value of an integer expression over the named constants (e.g. SYMBOLS * SAMPLES_PER_SYMBOL, SYMBOLS - 1)"""
    e = expr.strip()
    if not re.fullmatch(r"[\w\s+\-*/()]+", e):
        raise AnchorError(f"{what}: size expression not understood: {e}")
    for k, v in env.items():
        e = re.sub(r"\b%s\b" % k, str(v), e)
    if not re.fullmatch(r"[\d\s+\-*/()]+", e):
        raise AnchorError(f"{what}: unknown name in size expression: {expr}")
    v = eval(e.replace("/", "//"), {"__builtins__": {}})
    if v < 0:
        raise AnchorError(f"{what}: negative size")
    return int(v)


def generate(repo):
    o = ["From Coq Require Import ZArith Arith Bool List.", "Import ListNotations.", "Local Open Scope nat_scope.", ""]

    def NAT(name, v, note=""):
        o.append(f"Definition {name} : nat := {int(v)}.{('  (* ' + note + ' *)') if note else ''}")

    def TEST(name, op, note):
        o.append(f"Definition {name} (a b : nat) : bool := {OPS[op]}.  (* {note} *)")

    src = strip_cpp_comments(read(repo, "include/m17cxx/Correlator.h"))
    c = body_of(src, r"template\s*<typename\s+FloatType>\s*struct\s+Correlator\s*\{", "struct Correlator")
    o.append("(* ---- Correlator.h : Correlator<FloatType> *)")
    env = {}
    for nm in ("SYMBOLS", "SAMPLES_PER_SYMBOL"):
        m = find1(r"static\s+constexpr\s+size_t\s+%s\s*=\s*(\d+)\s*;" % nm, c, f"Correlator::{nm}")
        env[nm] = int(m.group(1))
    NAT("corr_symbols", env["SYMBOLS"]); NAT("corr_sps", env["SAMPLES_PER_SYMBOL"])
    m = find1(r"using\s+buffer_t\s*=\s*std::array<FloatType,\s*([^>]+)>;", c, "Correlator::buffer_t")
    NAT("corr_buffer_size", size_expr(m.group(1), env, "buffer_t"), "std::array<FloatType, %s>" % m.group(1).strip())
    m = find1(r"using\s+sync_t\s*=\s*std::array<int8_t,\s*([^>]+)>;", c, "Correlator::sync_t")
    NAT("corr_sync_size", size_expr(m.group(1), env, "sync_t"))
    m = find1(r"std::array<int,\s*([^>]+)>\s+tmp;", c, "Correlator::tmp")
    NAT("corr_tmp_size", size_expr(m.group(1), env, "tmp"), "std::array<int, %s> tmp" % m.group(1).strip())
    find1(r"buffer_t\s+buffer_;", c, "buffer_ member")
    for nm in ("buffer_pos_", "prev_buffer_pos_"):
        find1(r"size_t\s+%s\s*=\s*0;" % nm, c, f"{nm} starts at 0")

    s = body_of(c, r"void\s+sample\s*\(FloatType\s+value\)\s*\{", "Correlator::sample")
    m = find1(r"buffer_\[buffer_pos_\]\s*=\s*value;\s*prev_buffer_pos_\s*=\s*buffer_pos_;\s*"
              r"if\s*\(\+\+buffer_pos_\s*" + OP_RE + r"\s*buffer_\.size\(\)\)\s*buffer_pos_\s*=\s*0;\s*\}", s, "sample(): store, prev, ++ and wrap")
    TEST("corr_sample_wrap", m.group(1), f"if (++buffer_pos_ {m.group(1)} buffer_.size()) buffer_pos_ = 0;")
    if len(re.findall(r"buffer_pos_\s*(?:=[^=]|\+\+|--|\+=|-=)|(?:\+\+|--)\s*(?:prev_)?buffer_pos_", c)) != 5:
        # the two initialisers, prev_buffer_pos_ = buffer_pos_, ++buffer_pos_, buffer_pos_ = 0
        raise AnchorError("Correlator: buffer_pos_ / prev_buffer_pos_ are written somewhere else than in sample()")

    k = body_of(c, r"FloatType\s+correlate\s*\(sync_t\s+sync\)\s*\{", "Correlator::correlate")
    m = find1(r"size_t\s+pos\s*=\s*prev_buffer_pos_\s*\+\s*SAMPLES_PER_SYMBOL;\s*"
              r"for\s*\(size_t\s+i\s*=\s*0;\s*i\s*!=\s*sync\.size\(\);\s*\+\+i\)\s*\{\s*"
              r"if\s*\(pos\s*" + OP_RE + r"\s*buffer_\.size\(\)\)\s*pos\s*-=\s*buffer_\.size\(\);\s*"
              r"result\s*\+=\s*sync\[i\]\s*\*\s*buffer_\[pos\];\s*pos\s*\+=\s*SAMPLES_PER_SYMBOL;\s*\}", k, "correlate(): start, wrap, read, stride")
    TEST("corr_correlate_wrap", m.group(1), f"if (pos {m.group(1)} buffer_.size()) pos -= buffer_.size();")

    find1(r"size_t\s+index\s*\(\)\s*const\s*\{\s*return\s+prev_buffer_pos_\s*%\s*SAMPLES_PER_SYMBOL;\s*\}", c, "index() = prev_buffer_pos_ % SAMPLES_PER_SYMBOL")

    q = body_of(c, r"outer_symbol_levels\s*\(size_t\s+sample_index\)\s*\{", "Correlator::outer_symbol_levels")
    if len(re.findall(r"_level\s*=\s*buffer_\[sample_index\];", q)) != 2:
        raise AnchorError("outer_symbol_levels: expected min_level / max_level initialised from buffer_[sample_index]")
    find1(r"size_t\s+index\s*=\s*0;", q, "outer_symbol_levels: index = 0")
    loops = findall(r"for\s*\(size_t\s+i\s*=\s*sample_index;\s*i\s*" + OP_RE + r"\s*buffer_\.size\(\);\s*i\s*\+=\s*SAMPLES_PER_SYMBOL\)", q, "outer_symbol_levels loops", min_count=2)
    if len(loops) != 2 or len(set(loops)) != 1:
        raise AnchorError("outer_symbol_levels: expected two identical loop headers")
    TEST("corr_osl_loop", loops[0], f"for (size_t i = sample_index; i {loops[0]} buffer_.size(); i += SAMPLES_PER_SYMBOL)")
    find1(r"\{\s*tmp\[index\+\+\]\s*=\s*buffer_\[i\]\s*\*\s*1000\.;", q, "outer_symbol_levels: tmp[index++] = buffer_[i] * 1000. (second loop)")
    idx = set(re.findall(r"buffer_\[(\w+)\]", q))
    if idx != {"sample_index", "i"}:
        raise AnchorError(f"outer_symbol_levels: buffer_ is indexed by {sorted(idx)}")
    if len(re.findall(r"\btmp\[", c)) != 1:
        raise AnchorError("Correlator: tmp is indexed somewhere else")

    a = body_of(c, r"void\s+apply\s*\(F\s+func,\s*uint8_t\s+index\)\s*\{", "Correlator::apply")
    m = find1(r"for\s*\(size_t\s+i\s*=\s*index;\s*i\s*" + OP_RE + r"\s*buffer_\.size\(\);\s*i\s*\+=\s*SAMPLES_PER_SYMBOL\)\s*\{\s*func\(buffer_\[i\]\);\s*\}", a, "apply loop")
    TEST("corr_apply_loop", m.group(1), f"for (size_t i = index; i {m.group(1)} buffer_.size(); i += SAMPLES_PER_SYMBOL)")
    NAT("corr_apply_index_mod", 256, "uint8_t index")

    # ------------------------------------------------------------------ SyncWord
    w = body_of(src, r"template\s*<typename\s+Correlator>\s*struct\s+SyncWord\s*\{", "struct SyncWord")
    o.append("(* ---- Correlator.h : SyncWord<Correlator> *)")
    find1(r"static\s+constexpr\s+size_t\s+SYMBOLS\s*=\s*Correlator::SYMBOLS;", w, "SyncWord::SYMBOLS")
    find1(r"static\s+constexpr\s+size_t\s+SAMPLES_PER_SYMBOL\s*=\s*Correlator::SAMPLES_PER_SYMBOL;", w, "SyncWord::SAMPLES_PER_SYMBOL")
    m = find1(r"using\s+buffer_t\s*=\s*std::array<int8_t,\s*([^>]+)>;", w, "SyncWord::buffer_t")
    NAT("sw_word_size", size_expr(m.group(1), env, "SyncWord::buffer_t"))
    m = find1(r"using\s+sample_buffer_t\s*=\s*std::array<value_type,\s*([^>]+)>;", w, "SyncWord::sample_buffer_t")
    NAT("sw_samples_size", size_expr(m.group(1), env, "sample_buffer_t"), "std::array<value_type, %s> samples_" % m.group(1).strip())
    find1(r"size_t\s+timing_index_\s*=\s*0;", w, "timing_index_ starts at 0")
    find1(r"bool\s+triggered_\s*=\s*false;", w, "triggered_ starts false")
    t = body_of(w, r"value_type\s+triggered\s*\(Correlator&\s*correlator\)\s*\{", "SyncWord::triggered")
    find1(r"auto\s+value\s*=\s*correlator\.correlate\(sync_word_\);", t, "triggered(): correlate(sync_word_)")
    fp = body_of(w, r"void\s+find_peak\s*\(value_type\s+value\)\s*\{", "SyncWord::find_peak")
    find1(r"triggered_\s*=\s*false;\s*timing_index_\s*=\s*0;\s*auto\s+peak_value\s*=\s*value;\s*uint8_t\s+index\s*=\s*0;\s*"
          r"for\s*\(auto\s+f\s*:\s*samples_\)\s*\{\s*if\s*\(abs\(f\)\s*>\s*abs\(peak_value\)\)\s*\{\s*peak_value\s*=\s*f;\s*timing_index_\s*=\s*index;\s*\}\s*"
          r"index\s*\+=\s*1;\s*\}\s*updated_\s*=\s*peak_value\s*>\s*0\s*\?\s*1\s*:\s*-1;", fp, "find_peak body")
    NAT("sw_peak_index_mod", 256, "uint8_t index in find_peak")
    op = body_of(w, r"size_t\s+operator\(\)\s*\(Correlator&\s*correlator\)\s*\{", "SyncWord::operator()")
    find1(r"auto\s+value\s*=\s*triggered\(correlator\);\s*if\s*\(value\s*!=\s*0\)\s*\{\s*if\s*\(!triggered_\)\s*\{\s*samples_\.fill\(0\);\s*triggered_\s*=\s*true;\s*\}\s*"
          r"samples_\[correlator\.index\(\)\]\s*=\s*value;\s*\}\s*else\s*\{\s*if\s*\(triggered_\)\s*\{\s*find_peak\(value\);\s*\}\s*\}\s*return\s+timing_index_;", op, "SyncWord::operator() body")
    if len(re.findall(r"\bsamples_\[", w)) != 1 or len(re.findall(r"timing_index_\s*=[^=]", w)) != 3:
        raise AnchorError("SyncWord: samples_ / timing_index_ are written somewhere else")

    # ------------------------------------------------------------------ M17Demodulator.h : where the sample indices come from
    d = strip_cpp_comments(read(repo, "include/m17cxx/M17Demodulator.h"))
    o.append("(* ---- M17Demodulator.h : sources of sample_index / sync_sample_index (closed list, checked) *)")
    find1(r"using\s+collelator_t\s*=\s*Correlator<FloatType>;\s*using\s+sync_word_t\s*=\s*SyncWord<collelator_t>;", d, "correlator / sync word types")
    for nm in ("sample_index", "sync_sample_index"):
        find1(r"uint8_t\s+%s\s*=\s*0;" % nm, d, f"{nm} is uint8_t, starts at 0")
    NAT("demod_index_mod", 256, "uint8_t sample_index, sync_sample_index, update_values(uint8_t index)")
    uv = body_of(d, r"void\s+M17Demodulator<FloatType>::update_values\s*\(uint8_t\s+index\)\s*\{", "update_values")
    find1(r"correlator\.outer_symbol_levels\(sample_index\);\s*dev\.update\(mn,\s*mx\);\s*sync_sample_index\s*=\s*index;", uv, "update_values body")
    assigns = re.findall(r"(?<![\w.])sample_index\s*=(?!=)\s*([^;]+);", d)
    expected = ["0", "sync_index", "sync_index", "sync_index", "clock_recovery.sample_index()", "sync_sample_index"]
    if sorted(a.strip() for a in assigns) != sorted(expected):
        raise AnchorError(f"M17Demodulator: assignments to sample_index are {assigns}")
    if [a.strip() for a in re.findall(r"sync_sample_index\s*=(?!=)\s*([^;]+);", d)] != ["0", "index"]:
        raise AnchorError("M17Demodulator: sync_sample_index is assigned somewhere else than in update_values")
    calls = re.findall(r"update_values\((\w+)\);", d)
    if sorted(calls) != sorted(["sync_index"] * 6 + ["sample_index"] * 3):
        raise AnchorError(f"M17Demodulator: update_values call sites are {calls}")
    si = re.findall(r"(?:auto|uint8_t)\s+sync_index\s*=\s*(\w+)\(correlator\);|(?<![\w.])sync_index\s*=\s*(\w+)\(correlator\);", d)
    srcs = sorted(x or y for x, y in si)
    if srcs != sorted(["preamble_sync", "lsf_sync", "packet_sync", "lsf_sync", "packet_sync", "packet_sync"]):
        raise AnchorError(f"M17Demodulator: sync_index sources are {srcs}")
    if re.search(r"\.apply\s*\(", d) or len(re.findall(r"outer_symbol_levels", d)) != 1:
        raise AnchorError("M17Demodulator: Correlator::apply / outer_symbol_levels call sites changed")
    find1(r"clock_recovery\.update\(\);\s*sample_index\s*=\s*clock_recovery\.sample_index\(\);", d, "do_frame: clock update")
    find1(r"clock_recovery\.reset\(sync_sample_index\);\s*need_clock_reset_\s*=\s*false;\s*sample_index\s*=\s*sync_sample_index;", d, "clock reset")
    find1(r"clock_recovery\.update\(sync_sample_index\);", d, "clock update from the sync word")
    cmp_sites = len(re.findall(r"correlator\.index\(\)\s*(?:==|!=)\s*sample_index", d)) + len(re.findall(r"sample_index\s*-\s*correlator\.index\(\)", d))
    NAT("demod_index_compare_sites", cmp_sites, "correlator.index() ==/!= sample_index, sample_index - correlator.index()")
    words = re.findall(r"sync_word_t\s+(\w+)\{\{([^}]*)\}", d)
    if [n for n, _ in words] != ["preamble_sync", "lsf_sync", "packet_sync", "eot_sync"]:
        raise AnchorError("M17Demodulator: sync word members changed")
    for n, body in words:
        vals = [int(x.replace("+", "")) for x in body.split(",")]
        o.append(f"Definition demod_{n}_word : list Z := [{'; '.join(str(v) for v in vals)}]%Z.")
    return "\n".join(o) + "\n"
