"""Constants of the Viterbi decoder as the frame decoder instantiates it, the puncture matrices and the
four (IN, OUT) geometries.  Tables the C++ computes at compile time (nextState_/prevState_/cost_, P1) are NOT copied:
ImplViterbi.v computes them with the same algorithm from the parameters extracted here."""
import re
from vlib import read, strip_cpp_comments, find1, findall, cint, AnchorError


def _ints(body):
    return [cint(t) for t in body.replace("\n", " ").split(",") if t.strip()]


def generate(repo):
    out = ["From Coq Require Import NArith ZArith List.", "Import ListNotations.", ""]
    fd = strip_cpp_comments(read(repo, "include/m17cxx/M17FrameDecoder.h"))
    # --- Trellis<4,2> trellis_{makeTrellis<4, 2>({031,027})};  Viterbi<decltype(trellis_), 4> viterbi_{trellis_};
    m = find1(r"Trellis\s*<\s*(\d+)\s*,\s*(\d+)\s*>\s*trellis_\s*\{\s*makeTrellis\s*<\s*(\d+)\s*,\s*(\d+)\s*>\s*\(\s*\{([^}]*)\}\s*\)\s*\}\s*;",
              fd, "Trellis<K,n> trellis_{makeTrellis<K,n>({polys})} in M17FrameDecoder.h")
    K, n, K2, n2 = (int(m.group(i)) for i in range(1, 5))
    if (K, n) != (K2, n2):
        raise AnchorError("Trellis<K,n> and makeTrellis<K,n> disagree")
    polys = _ints(m.group(5))
    if len(polys) != n:
        raise AnchorError("number of polynomials differs from n")
    m = find1(r"Viterbi\s*<\s*decltype\s*\(\s*trellis_\s*\)\s*,\s*(\d+)\s*>\s*viterbi_\s*\{\s*trellis_\s*\}\s*;", fd,
              "Viterbi<decltype(trellis_), LLR> viterbi_{trellis_}")
    llr = int(m.group(1))
    out.append(f"Definition vit_K : nat := {K}.        (* Trellis<K,n>: memory depth *)")
    out.append(f"Definition vit_n : nat := {n}.        (* output bits per input bit *)")
    out.append("Definition vit_polys : list N := [" + "; ".join(str(p) for p in polys) + "]%N.  (* octal " +
               ", ".join(oct(p) for p in polys) + " *)")
    out.append(f"Definition vit_LLR : nat := {llr}.      (* Viterbi<.., LLR_> in the frame decoder *)")

    tr = strip_cpp_comments(read(repo, "include/m17cxx/Trellis.h"))
    m = find1(r"static\s+constexpr\s+size_t\s+k\s*=\s*(\d+)\s*;", tr, "Trellis::k")
    out.append(f"Definition vit_k : nat := {int(m.group(1))}.        (* input bits per symbol (Trellis::k) *)")

    vh = strip_cpp_comments(read(repo, "include/m17cxx/Viterbi.h"))
    m = find1(r"std::array\s*<\s*std::bitset\s*<\s*NumStates\s*>\s*,\s*(\d+)\s*>\s*history_\s*;", vh, "history_ size")
    out.append(f"Definition vit_history_size : nat := {int(m.group(1))}.")
    m = find1(r"static_assert\s*\(\s*LLR_\s*<\s*(\d+)\s*\)", vh, "static_assert(LLR_ < 7)")
    out.append(f"Definition vit_LLR_bound : nat := {int(m.group(1))}.   (* static_assert(LLR_ < bound) *)")
    m = find1(r"using\s+metrics_t\s*=\s*std::array\s*<\s*int(\d+)_t\s*,\s*NumStates\s*>\s*;", vh, "metrics_t element type")
    mbits = int(m.group(1))
    m = find1(r"constexpr\s+auto\s+MAX_METRIC\s*=\s*std::numeric_limits\s*<\s*typename\s+metrics_t::value_type\s*>\s*::\s*max\s*\(\s*\)\s*/\s*(\d+)\s*;",
              vh, "MAX_METRIC")
    out.append(f"Definition vit_metric_bits : nat := {mbits}.   (* metrics_t = std::array<int{mbits}_t, NumStates> *)")
    out.append(f"Definition vit_max_metric_div : Z := {int(m.group(1))}%Z.  (* MAX_METRIC = numeric_limits<..>::max() / this *)")
    m = find1(r"using\s+cost_t\s*=\s*std::array\s*<\s*std::array\s*<\s*int(\d+)_t\s*,\s*n\s*>\s*,\s*NumStates\s*>\s*;", vh, "cost_t element type")
    out.append(f"Definition vit_cost_bits : nat := {int(m.group(1))}.")

    # --- puncture matrices (Trellis.h)
    m = find1(r"make_p1\s*\(\s*\)\s*\{\s*std::array\s*<\s*int8_t\s*,\s*(\d+)\s*>\s*result\s*\{\s*\}\s*;\s*"
              r"for\s*\(\s*size_t\s+i\s*=\s*0\s*,\s*j\s*=\s*(\d+)\s*;\s*i\s*!=\s*(\d+)\s*;\s*\+\+i\s*\)\s*\{\s*"
              r"if\s*\(\s*i\s*==\s*j\s*\)\s*\{\s*result\s*\[\s*i\s*\]\s*=\s*(\d+)\s*;\s*j\s*\+=\s*(\d+)\s*;\s*\}\s*"
              r"else\s*\{\s*result\s*\[\s*i\s*\]\s*=\s*(\d+)\s*;", tr, "make_p1 loop")
    size, j0, bound, vhit, stride, velse = (int(m.group(i)) for i in range(1, 7))
    if size != bound:
        raise AnchorError("make_p1: array size and loop bound differ")
    out.append(f"Definition p1_size : nat := {size}.")
    out.append(f"Definition p1_first : nat := {j0}.")
    out.append(f"Definition p1_stride : nat := {stride}.")
    out.append(f"Definition p1_hit_value : N := {vhit}%N.")
    out.append(f"Definition p1_else_value : N := {velse}%N.")
    for name in ("P2", "P3"):
        m = find1(r"inline\s+constexpr\s+auto\s+%s\s*=\s*std::array\s*<\s*int8_t\s*,\s*(\d+)\s*>\s*\{([^}]*)\}\s*;" % name, tr, name)
        vals = _ints(m.group(2))
        if len(vals) != int(m.group(1)):
            raise AnchorError(f"{name}: declared size and literal count differ")
        out.append(f"Definition {name} : list N := [" + "; ".join(str(v) for v in vals) + "]%N.")

    # --- geometries: (received length, depunctured length IN, decoded length OUT, matrix)
    m = find1(r"using\s+input_buffer_t\s*=\s*std::array\s*<\s*int8_t\s*,\s*(\d+)\s*>\s*;", fd, "input_buffer_t")
    frame = int(m.group(1))
    dep = dict(findall(r"std::array\s*<\s*int8_t\s*,\s*(\d+)\s*>\s*(lsf|stream|packet|bert)\s*;",
                       find1(r"using\s+depunctured_buffer_t\s*=\s*union\s*\{(.*?)\}\s*;", fd, "depunctured_buffer_t").group(1),
                       "depunctured_buffer_t members", min_count=4)[i][::-1] for i in range(4))
    dec = dict(findall(r"std::array\s*<\s*uint8_t\s*,\s*(\d+)\s*>\s*(lsf|stream|packet|bert)\s*;",
                       find1(r"using\s+decode_buffer_t\s*=\s*union\s*\{(.*?)\}\s*;", fd, "decode_buffer_t").group(1),
                       "decode_buffer_t members", min_count=4)[i][::-1] for i in range(4))
    geoms = []
    for name in ("lsf", "stream", "packet", "bert"):
        mm = find1(r"depuncture\s*\(\s*(\w+)\s*,\s*depuncture_buffer\.%s\s*,\s*(P\d)\s*\)\s*;\s*"
                   r"viterbi_cost\s*=\s*viterbi_\.decode\s*\(\s*depuncture_buffer\.%s\s*,\s*decode_buffer\.%s\s*\)\s*;" % (name, name, name),
                   fd, f"depuncture+decode call for {name}")
        src, pm = mm.group(1), mm.group(2)
        if src == "buffer":
            rx = frame
        else:
            rx = int(find1(r"std::array\s*<\s*int8_t\s*,\s*(\d+)\s*>\s*%s\s*;" % re.escape(src), fd, f"size of {src}").group(1))
        geoms.append((name, rx, int(dep[name]), int(dec[name]), pm))
    out.append("(* per frame type: received soft bits, depunctured length IN, decoded length OUT, puncture matrix 1/2/3 *)")
    for name, rx, i, o, pm in geoms:
        out.append(f"Definition geom_{name} : nat * nat * nat * nat := ({rx}, {i}, {o}, {pm[1:]}).")
    out.append("Definition geoms : list (nat * nat * nat * nat) := [" + "; ".join(f"geom_{g[0]}" for g in geoms) + "].")
    # the end-state scan: which state is the initial candidate (`size_t min_element = s; int32_t min_cost = prevMetrics[s];`)
    vh = strip_cpp_comments(read(repo, "include/m17cxx/Viterbi.h"))
    mm = find1(r"size_t\s+min_element\s*=\s*(\d+)\s*;\s*int32_t\s+min_cost\s*=\s*prevMetrics\s*\[\s*(\d+)\s*\]\s*;", vh,
               "end-state scan: min_element = s; min_cost = prevMetrics[s]")
    if mm.group(1) != mm.group(2):
        raise AnchorError(f"end-state scan starts at element {mm.group(1)} but with the metric of state {mm.group(2)}")
    out.append(f"Definition vit_scan_start : nat := {int(mm.group(1))}.   (* initial candidate of the end-state scan *)")
    return "\n".join(out) + "\n"
