"""CRC16 template arguments at every instantiation that the modem uses for the M17 CRC."""
import re
from vlib import read, strip_cpp_comments, find1, findall, cint, AnchorError

SITES = [
    ("decoder", "include/m17cxx/M17FrameDecoder.h", r"CRC16\s*<\s*([^,>]+),\s*([^>]+)>\s*crc_\s*;"),
    ("modulator", "include/m17cxx/M17Modulator.h", r"CRC16\s*<\s*([^,>]+),\s*([^>]+)>\s*crc_\s*;"),
]


def generate(repo):
    out = ["From Coq Require Import NArith List.", "Import ListNotations.", ""]
    h = strip_cpp_comments(read(repo, "include/m17cxx/CRC16.h"))
    m = find1(r"template\s*<\s*uint16_t\s+Poly\s*=\s*([^,]+),\s*uint16_t\s+Init\s*=\s*([^>]+)>\s*struct\s+CRC16", h, "CRC16 template defaults")
    out.append(f"Definition crc_default_poly : N := {cint(m.group(1))}%N.")
    out.append(f"Definition crc_default_init : N := {cint(m.group(2))}%N.")
    for name in ("MASK", "LSB", "MSB"):
        mm = find1(r"static\s+constexpr\s+uint16_t\s+%s\s*=\s*([^;]+);" % name, h, f"CRC16::{name}")
        out.append(f"Definition crc_{name} : N := {cint(mm.group(1))}%N.")
    # loop bounds of reset()/crc()/get()
    b = findall(r"for\s*\(\s*size_t\s+i\s*=\s*0\s*;\s*i\s*!=\s*(\d+)\s*;\s*\+\+i\s*\)", h, "CRC16 loop bounds", min_count=3)
    out.append(f"Definition crc_reset_steps : nat := {int(b[0])}.")
    out.append(f"Definition crc_byte_steps : nat := {int(b[1])}.")
    out.append(f"Definition crc_get_steps : nat := {int(b[2])}.")
    sites = []
    for name, rel, pat in SITES:
        s = strip_cpp_comments(read(repo, rel))
        mm = find1(pat, s, f"CRC16 instantiation in {rel}")
        sites.append((name, cint(mm.group(1)), cint(mm.group(2))))
    s = strip_cpp_comments(read(repo, "apps/m17-mod.cpp"))
    for i, (p, q) in enumerate(findall(r"CRC16\s*<\s*([^,>]+),\s*([^>]+)>\s*crc\s*;", s, "CRC16 instantiations in m17-mod.cpp")):
        sites.append((f"mod{i}", cint(p), cint(q)))
    s = strip_cpp_comments(read(repo, "apps/m17-demod.cpp"))
    mm = find1(r"CRC16\s*<\s*([^,>]+),\s*([^>]+)>\s*stream_crc\s*;", s, "stream_crc in m17-demod.cpp")
    sites.append(("demod_stream", cint(mm.group(1)), cint(mm.group(2))))
    out.append("(* (site, Poly, Init) at every place the modem instantiates the M17 CRC *)")
    out.append("Definition crc_sites : list (N * N) := [" + "; ".join(f"({p}, {q})" for _, p, q in sites) + "]%N.")
    out.append(f"Definition crc_poly : N := {sites[0][1]}%N.  (* M17FrameDecoder *)")
    out.append(f"Definition crc_init : N := {sites[0][2]}%N.")
    return "\n".join(out) + "\n"
