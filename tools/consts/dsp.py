"""DSP constants other than the RRC tables: IIR coefficient arrays (exact dyadic values for the float and the
double instantiation), sliding-DFT damping literal, and the data-carrier-detect DFT configuration."""
import re
from vlib import read, strip_cpp_comments, find1, AnchorError
from consts.taps import parse_array, dyadic


def coq_dyadic_list(name, vals, comment):
    e, ms = dyadic(vals)
    body = "; ".join(f"({m})" if m < 0 else str(m) for m in ms)
    return (f"(* {comment}: value_i = mant_i / 2^{e} *)\n"
            f"Definition {name}_exp : N := {e}%N.\n"
            f"Definition {name}_mant : list Z := [{body}]%Z.\n")


def generate(repo):
    out = ["From Coq Require Import ZArith NArith List.", "Import ListNotations.", ""]
    # ---- Correlator.h: BaseIirFilter<FloatType,3> sample_filter{b, a}
    c = strip_cpp_comments(read(repo, "include/m17cxx/Correlator.h"))
    find1(r"using\s+sample_filter_t\s*=\s*BaseIirFilter\s*<\s*FloatType\s*,\s*3\s*>\s*;", c, "Correlator sample_filter_t = BaseIirFilter<FloatType,3>")
    find1(r"sample_filter_t\s+sample_filter\s*\{\s*b\s*,\s*a\s*\}\s*;", c, "Correlator sample_filter{b, a} (numerator first)")
    for nm in ("b", "a"):
        m = find1(r"static\s+constexpr\s+std::array\s*<\s*FloatType\s*,\s*(\d+)\s*>\s*%s\s*=\s*\{([^{}]*)\}\s*;" % nm, c, f"Correlator::{nm}")
        for ctype in ("double", "float"):
            vals = parse_array(m.group(2), ctype, f"Correlator::{nm}")
            if len(vals) != int(m.group(1)):
                raise AnchorError(f"Correlator::{nm}: {m.group(1)} declared, {len(vals)} initializers")
            out.append(coq_dyadic_list(f"corr_{nm}_{ctype}", vals, f"Correlator.h {nm} as std::array<{ctype},{m.group(1)}>"))
    # ---- m17-mod.cpp evm_b / evm_a
    s = strip_cpp_comments(read(repo, "apps/m17-mod.cpp"))
    for nm in ("evm_b", "evm_a"):
        m = find1(r"const\s+auto\s+%s\s*=\s*std::array\s*<\s*(\w+)\s*,\s*(\d+)\s*>\s*\{([^{}]*)\}\s*;" % nm, s, f"{nm} in m17-mod.cpp")
        vals = parse_array(m.group(3), m.group(1), nm)
        if len(vals) != int(m.group(2)):
            raise AnchorError(f"{nm}: {m.group(2)} declared, {len(vals)} initializers")
        out.append(coq_dyadic_list(nm, vals, f"apps/m17-mod.cpp {nm} (std::array<{m.group(1)},{m.group(2)}>)"))
    # ---- SlidingDFT.h: N = SampleRate / Accuracy, damping literal
    h = strip_cpp_comments(read(repo, "include/m17cxx/SlidingDFT.h"))
    find1(r"static\s+constexpr\s+size_t\s+N\s*=\s*SampleRate\s*/\s*Accuracy\s*;", h, "SlidingDFT: N = SampleRate / Accuracy")
    m = find1(r"result_\s*=\s*result\s*\*\s*FloatType\s*\(\s*([0-9.eE+-]+)\s*\)\s*;", h, "SlidingDFT damping factor")
    for ctype in ("double", "float"):
        out.append(coq_dyadic_list(f"sdft_rho_{ctype}", parse_array(m.group(1), ctype, "damping"), f"SlidingDFT.h damping FloatType({m.group(1)}) for {ctype}"))
    find1(r"std::exp\s*\(\s*-\s*j\s*\*\s*pi2\s*\*\s*kth\s*\)", h, "SlidingDFT coeff_ = exp(-j*pi2*kth)")
    find1(r"std::exp\s*\(\s*-\s*j\s*\*\s*pi2\s*\*\s*k\s*\)", h, "NSlidingDFT coeff = exp(-j*pi2*k)")
    # ---- DataCarrierDetect.h / M17Demodulator.h: the DCD instance
    dc = strip_cpp_comments(read(repo, "include/m17cxx/DataCarrierDetect.h"))
    m = find1(r"using\s+NDFT\s*=\s*NSlidingDFT\s*<\s*FloatType\s*,\s*SampleRate\s*,\s*SampleRate\s*/\s*Accuracy\s*,\s*(\d+)\s*>\s*;", dc,
              "DataCarrierDetect::NDFT = NSlidingDFT<FloatType, SampleRate, SampleRate / Accuracy, 2>")
    out.append(f"Definition dcd_bins : nat := {int(m.group(1))}.")
    find1(r"dft_\s*\(\s*\{\s*freq1\s*,\s*freq2\s*\}\s*\)", dc, "DataCarrierDetect passes {freq1, freq2} to the DFT")
    d = strip_cpp_comments(read(repo, "include/m17cxx/M17Demodulator.h"))
    sr = find1(r"static\s+constexpr\s+uint16_t\s+SAMPLE_RATE\s*=\s*(\d+)\s*;", d, "SAMPLE_RATE")
    m = find1(r"DataCarrierDetect\s*<\s*FloatType\s*,\s*SAMPLE_RATE\s*,\s*(\d+)\s*>\s*dcd\s*\{\s*(\d+)\s*,\s*(\d+)\s*,", d,
              "M17Demodulator dcd{freq1, freq2, ...}")
    out.append(f"Definition dcd_sample_rate : N := {int(sr.group(1))}%N.")
    out.append(f"Definition dcd_accuracy : N := {int(m.group(1))}%N.")
    out.append(f"Definition dcd_freqs : list N := [{int(m.group(2))}; {int(m.group(3))}]%N.")
    out.append("(* NSlidingDFT length: SampleRate / Accuracy *)")
    out.append("Definition dcd_N : N := N.div dcd_sample_rate dcd_accuracy.")
    return "\n".join(out) + "\n"
