"""Soft-demapper literals of Util.h (llr_limit, llr_size, make_llr_map, llr) and the width / float type the modem instantiates.

Floating-point literals are emitted as the exact binary64 value the C++ literal denotes (Python's float() is the same
correctly-rounded decimal->binary64 conversion), written as a canonical SpecFloat.spec_float (53-bit mantissa)."""
import re
from fractions import Fraction
from vlib import read, strip_cpp_comments, find1, cint, AnchorError

FLOAT_LIT = r"[-+]?(?:\d+\.\d*|\.\d+|\d+)(?:[eE][-+]?\d+)?"


def b64(tok):
    """C++ double (or int) literal -> Coq spec_float term with the canonical binary64 mantissa/exponent."""
    t = tok.strip()
    if not re.fullmatch(FLOAT_LIT, t):
        raise AnchorError(f"not a plain floating literal: {tok!r}")
    x = float(t)
    if x == 0.0:
        return "S754_zero %s" % ("true" if t.startswith("-") else "false")
    q = Fraction(abs(x))
    # q = m * 2^e with 2^52 <= m < 2^53 (all literals here are normal numbers)
    e = 0
    while q.denominator != 1 or q.numerator < (1 << 52):
        q *= 2
        e -= 1
    while q.numerator >= (1 << 53):
        if q.numerator % 2:
            raise AnchorError(f"literal {tok!r} not representable")
        q /= 2
        e += 1
    return "S754_finite %s %d (%d)" % ("true" if x < 0 else "false", q.numerator, e)


def generate(repo):
    h = strip_cpp_comments(read(repo, "include/m17cxx/Util.h"))
    out = ["From Coq Require Import ZArith Floats.SpecFloat.", "Open Scope Z_scope.", ""]
    # llr_limit<N>():  (1 << (N - 1)) - 1
    m = find1(r"constexpr\s+size_t\s+llr_limit\s*\(\s*\)\s*\{\s*return\s*\(\s*(\w+)\s*<<\s*\(\s*N\s*-\s*(\w+)\s*\)\s*\)\s*-\s*(\w+)\s*;", h,
              "llr_limit: (1 << (N - 1)) - 1")
    out.append(f"Definition llr_limit_base : Z := {cint(m.group(1))}.")
    out.append(f"Definition llr_limit_shift_sub : Z := {cint(m.group(2))}.")
    out.append(f"Definition llr_limit_sub : Z := {cint(m.group(3))}.")
    # llr_size<N>(): llr_limit<N>() * 6 + 1
    m = find1(r"constexpr\s+size_t\s+llr_size\s*\(\s*\)\s*\{\s*return\s+llr_limit\s*<\s*N\s*>\s*\(\s*\)\s*\*\s*(\w+)\s*\+\s*(\w+)\s*;", h,
              "llr_size: llr_limit<N>() * 6 + 1")
    out.append(f"Definition llr_size_segments : Z := {cint(m.group(1))}.")
    out.append(f"Definition llr_size_extra : Z := {cint(m.group(2))}.")
    # make_llr_map
    body = find1(r"make_llr_map\s*\(\s*\)\s*\{(.*?)\n\}\s*\n", h, "make_llr_map body").group(1)
    m = find1(r"constexpr\s+FloatType\s+inc\s*=\s*(%s)\s*/\s*FloatType\s*\(\s*limit\s*\)\s*;" % FLOAT_LIT, body, "inc = 1.0 / FloatType(limit)")
    out.append(f"Definition llr_inc_num : spec_float := {b64(m.group(1))}.   (* {m.group(1)} *)")
    m = find1(r"FloatType\s+k\s*=\s*(%s)\s*\+\s*inc\s*;" % FLOAT_LIT, body, "k = -3.0 + inc")
    out.append(f"Definition llr_k0 : spec_float := {b64(m.group(1))}.   (* {m.group(1)} *)")
    m = find1(r"if\s*\(\s*k\s*\+\s*(%s)\s*<\s*(%s)\s*\)" % (FLOAT_LIT, FLOAT_LIT), body, "if (k + 1.0 < 0)")
    out.append(f"Definition llr_seg1_add : spec_float := {b64(m.group(1))}.   (* k + {m.group(1)} < {m.group(2)} *)")
    out.append(f"Definition llr_seg1_cmp : spec_float := {b64(m.group(2))}.")
    m = find1(r"else\s+if\s*\(\s*k\s*-\s*(%s)\s*<\s*(%s)\s*\)" % (FLOAT_LIT, FLOAT_LIT), body, "else if (k - 1.0 < 0)")
    out.append(f"Definition llr_seg2_sub : spec_float := {b64(m.group(1))}.   (* k - {m.group(1)} < {m.group(2)} *)")
    out.append(f"Definition llr_seg2_cmp : spec_float := {b64(m.group(2))}.")
    # skip-zero replacement values: `if (j == 0) j = -1;` (twice, for j-- and i--) and `if (j == 0) j = 1;`
    skips = re.findall(r"if\s*\(\s*([ij])\s*==\s*0\s*\)\s*\1\s*=\s*(-?\d+)\s*;", body)
    if len(skips) != 3:
        raise AnchorError("make_llr_map skip-zero rules (three `if (x == 0) x = +-1;`)")
    out.append("(* skip-zero rules in source order: first segment (j--), second (i--), third (j++) *)")
    for n, (v, val) in enumerate(skips):
        out.append(f"Definition llr_skip{n + 1} : Z := {int(val)}.   (* {v} *)")
    # llr(): clamp bounds
    lb = find1(r"auto\s+llr\s*\(\s*FloatType\s+sample\s*\)\s*\{(.*?)\n\}", h, "llr body").group(1)
    m = find1(r"FloatType\s+MAX_VALUE\s*=\s*(%s)\s*;" % FLOAT_LIT, lb, "MAX_VALUE")
    out.append(f"Definition llr_max_value : spec_float := {b64(m.group(1))}.   (* {m.group(1)} *)")
    m = find1(r"FloatType\s+MIN_VALUE\s*=\s*(%s)\s*;" % FLOAT_LIT, lb, "MIN_VALUE")
    out.append(f"Definition llr_min_value : spec_float := {b64(m.group(1))}.   (* {m.group(1)} *)")
    # the instantiation used by the demodulator
    d = strip_cpp_comments(read(repo, "include/m17cxx/M17Demodulator.h"))
    m = find1(r"llr\s*<\s*FloatType\s*,\s*(\w+)\s*>\s*\(\s*sample\s*\)", d, "llr<FloatType, 4>(sample) in M17Demodulator.h")
    out.append(f"Definition llr_width_modem : Z := {cint(m.group(1))}.   (* M17Demodulator.h: llr<FloatType, N>(sample) *)")
    a = strip_cpp_comments(read(repo, "apps/m17-demod.cpp"))
    m = find1(r"using\s+FloatType\s*=\s*(float|double)\s*;", a, "using FloatType = float; in m17-demod.cpp")
    out.append(f"Definition llr_app_float_is_binary32 : bool := {'true' if m.group(1) == 'float' else 'false'}.   (* m17-demod: {m.group(1)} *)")
    return "\n".join(out) + "\n"
