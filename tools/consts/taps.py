"""The four root-raised-cosine tap tables, as the EXACT dyadic rationals their literals denote.

Each table becomes   <name>_mant : list Z   and   <name>_exp : N   with   tap_i = mant_i / 2^exp   exactly
(one common power-of-two denominator per table, so all later arithmetic is integer arithmetic).

  literal -> double : Python float(lit) (correctly rounded decimal->binary64, as the compiler does)
  double  -> float  : struct.pack('f') (round-to-nearest-even binary64->binary32), for std::array<float, N>
"""
import re
import struct
from fractions import Fraction
from vlib import read, strip_cpp_comments, find1, AnchorError

LIT = r"[-+]?(?:\d+\.\d*|\.\d+|\d+)(?:[eE][-+]?\d+)?"


def literal_value(tok, ctype):
    """exact rational denoted by the C++ floating literal `tok` stored into a `ctype` array element"""
    t = tok.strip()
    if not re.fullmatch(LIT, t):
        raise AnchorError(f"not a plain floating literal: {tok!r}")
    d = float(t)
    if ctype == "double":
        return Fraction(d)
    if ctype == "float":
        return Fraction(struct.unpack("f", struct.pack("f", d))[0])
    raise AnchorError(f"unsupported element type {ctype!r}")


def parse_array(body, ctype, what):
    toks = [t.strip() for t in body.replace("\n", " ").split(",")]
    if toks and toks[-1] == "":
        toks.pop()
    if not toks:
        raise AnchorError(f"{what}: empty initializer")
    return [literal_value(t, ctype) for t in toks]


def dyadic(vals):
    """common exponent e and integer mantissas with v = m / 2^e"""
    e = 0
    for v in vals:
        d = v.denominator
        if d & (d - 1):
            raise AnchorError("non-dyadic value")
        e = max(e, d.bit_length() - 1)
    return e, [int(v * (1 << e)) for v in vals]


def coq_table(name, vals, comment):
    e, ms = dyadic(vals)
    rows = []
    for i in range(0, len(ms), 4):
        rows.append("  " + "; ".join(f"({m})" if m < 0 else str(m) for m in ms[i:i + 4]))
    return (f"(* {comment}: {len(ms)} taps, tap_i = mant_i / 2^{e} *)\n"
            f"Definition {name}_exp : N := {e}%N.\n"
            f"Definition {name}_mant : list Z := [\n" + ";\n".join(rows) + "\n]%Z.\n")


def tables(repo):
    """[(coq name, ctype, declared size, [Fraction], comment)] read from the repository's current text"""
    out = []
    d = strip_cpp_comments(read(repo, "include/m17cxx/M17Demodulator.h"))
    for ctype in ("double", "float"):
        m = find1(r"template\s*<\s*>\s*struct\s+Taps\s*<\s*%s\s*>\s*\{\s*static\s+constexpr\s+auto\s+rrc_taps\s*=\s*"
                  r"std::array\s*<\s*(\w+)\s*,\s*(\d+)\s*>\s*\{([^{}]*)\}\s*;" % ctype, d,
                  f"detail::Taps<{ctype}>::rrc_taps in M17Demodulator.h")
        out.append((f"rx_{ctype}", m.group(1), int(m.group(2)), parse_array(m.group(3), m.group(1), f"Taps<{ctype}>"),
                    f"M17Demodulator.h detail::Taps<{ctype}>::rrc_taps (std::array<{m.group(1)}>)"))
    # the demodulator really filters with Taps<FloatType>::rrc_taps
    find1(r"BaseFirFilter\s*<\s*FloatType\s*,\s*detail::Taps<FloatType>::rrc_taps\.size\(\)\s*>\s*demod_filter\s*"
          r"\{\s*detail::Taps<FloatType>::rrc_taps\s*\}", d, "demod_filter uses detail::Taps<FloatType>::rrc_taps")
    s = strip_cpp_comments(read(repo, "apps/m17-mod.cpp"))
    m = find1(r"const\s+auto\s+rrc_taps\s*=\s*std::array\s*<\s*(\w+)\s*,\s*(\d+)\s*>\s*\{([^{}]*)\}\s*;", s, "rrc_taps in m17-mod.cpp")
    out.append(("tx_mod", m.group(1), int(m.group(2)), parse_array(m.group(3), m.group(1), "m17-mod rrc_taps"),
                f"apps/m17-mod.cpp rrc_taps (std::array<{m.group(1)}>)"))
    find1(r"BaseFirFilter\s*<\s*double\s*,\s*std::tuple_size<decltype\(rrc_taps\)>::value\s*>\s*rrc\s*=\s*makeFirFilter\(rrc_taps\)",
          s, "m17-mod.cpp filters with rrc_taps")
    s = strip_cpp_comments(read(repo, "include/m17cxx/M17Modulator.h"))
    m = find1(r"static\s+const\s+auto\s+rrc_taps\s*=\s*std::array\s*<\s*(\w+)\s*,\s*(\d+)\s*>\s*\{([^{}]*)\}\s*;", s,
              "rrc_taps in M17Modulator.h symbols_to_baseband")
    out.append(("tx_modulator", m.group(1), int(m.group(2)), parse_array(m.group(3), m.group(1), "M17Modulator rrc_taps"),
                f"M17Modulator.h symbols_to_baseband rrc_taps (std::array<{m.group(1)}>)"))
    find1(r"BaseFirFilter\s*<\s*double\s*,\s*std::tuple_size<decltype\(rrc_taps\)>::value\s*>\s*rrc\s*=\s*makeFirFilter\(rrc_taps\)",
          s, "M17Modulator.h filters with rrc_taps")
    for name, ctype, n, vals, _ in out:
        if n != len(vals):
            raise AnchorError(f"{name}: std::array<{ctype}, {n}> has {len(vals)} initializers")
    return out


def generate(repo):
    out = ["From Coq Require Import ZArith NArith List.", "Import ListNotations.", ""]
    for name, ctype, n, vals, comment in tables(repo):
        out.append(f"Definition {name}_size : nat := {n}.")
        out.append(coq_table(name, vals, comment))
    d = strip_cpp_comments(read(repo, "include/m17cxx/M17Demodulator.h"))
    sr = find1(r"static\s+constexpr\s+uint16_t\s+SAMPLE_RATE\s*=\s*(\d+)\s*;", d, "SAMPLE_RATE")
    sy = find1(r"static\s+constexpr\s+uint16_t\s+SYMBOL_RATE\s*=\s*(\d+)\s*;", d, "SYMBOL_RATE")
    find1(r"SAMPLES_PER_SYMBOL\s*=\s*SAMPLE_RATE\s*/\s*SYMBOL_RATE\s*;", d, "SAMPLES_PER_SYMBOL = SAMPLE_RATE / SYMBOL_RATE")
    out.append(f"Definition sample_rate : N := {int(sr.group(1))}%N.")
    out.append(f"Definition symbol_rate : N := {int(sy.group(1))}%N.")
    out.append("(* SAMPLES_PER_SYMBOL = SAMPLE_RATE / SYMBOL_RATE (M17Demodulator.h) *)")
    out.append("Definition samples_per_symbol : nat := N.to_nat (N.div sample_rate symbol_rate).")
    return "\n".join(out) + "\n"
