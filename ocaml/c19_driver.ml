(* C19 driver: one case per line on stdin, one canonical result per line on stdout (exact numbers, hex).
   Parsing/printing only; every arithmetic step is done by the extracted model.

   fir   <tbl> <reset> <emit> k0 k1 ...        tbl = rxd|rxf|mod|mtr|c:<m0,m1,...>   (taps / samples as integers;
                                               the scale 2^-(e+q) is applied by the caller)   -> e=<exp> y=<z>,<z>,...
   firspec <tbl> <emit> k0 k1 ...              the specification's convolution sum          -> e=<exp> y=...
   iir   <coef> <qx> <emit> k0 ...             coef = corrd|corrf|evm|c:<qc>:<b0,..>:<a0,..>; x_i = k_i/2^qx  -> y=<q>,<q>,...
   iirspec <coef> <qx> <emit> k0 ...           right-hand side of the difference equation evaluated on the model's outputs
   sdft  <N> <re> <ere> <im> <eim> <rho_sel> <qx> <emit> k0 ...   w = re/2^ere + i im/2^eim; rho_sel = d|f|one  -> y=<q>:<q>,...
   nsdft <N> <K> (<re> <ere> <im> <eim>)*K <qx> <emit> k0 ...     -> y=<q>:<q>;<q>:<q>,...  (bins separated by ';')
   dft   <re> <ere> <im> <eim> <qx> k0 ... k_{N-1}    specification DFT bin of the window      -> y=<q>:<q>
   cascade <tbl> <tbl>                         specification convolution of two tables        -> e=<exp> y=...
   table <tbl>                                 the regenerated constants                      -> e=<exp> y=...        *)
open C19_model
(*#include conv.inc.ml*)
(*#include conv_z.inc.ml*)

(* exact printing of arbitrarily large extracted numbers, in hex *)
let hex_of_pos (p : positive) : string =
  let bits = Buffer.create 64 in
  let rec go p = match p with
    | XH -> Buffer.add_char bits '1'
    | XO q -> Buffer.add_char bits '0'; go q
    | XI q -> Buffer.add_char bits '1'; go q in
  go p;
  let s = Buffer.contents bits in           (* least significant bit first *)
  let n = String.length s in
  let nd = (n + 3) / 4 in
  let out = Bytes.make nd '0' in
  for d = 0 to nd - 1 do
    let v = ref 0 in
    for b = 0 to 3 do
      let i = 4 * d + b in
      if i < n && s.[i] = '1' then v := !v lor (1 lsl b)
    done;
    Bytes.set out (nd - 1 - d) "0123456789abcdef".[!v]
  done;
  Bytes.to_string out
let hex_of_z (x : z) : string = match x with Z0 -> "0" | Zpos p -> hex_of_pos p | Zneg p -> "-" ^ hex_of_pos p
let hex_of_q (x : qc) : string = hex_of_z (c19_qnum x) ^ "/" ^ hex_of_pos (c19_qden x)
let hex_of_c ((a, b) : qc * qc) : string = hex_of_q a ^ ":" ^ hex_of_q b

let rec pow2_pos (e : int) : positive = if e <= 0 then XH else XO (pow2_pos (e - 1))
let q_of (m : int) (e : int) : qc = c19_q (z_of_int m) (pow2_pos e)
let rec int_of_n_ (x : n) : int = int_of_n x
let q_of_z (m : z) (e : int) : qc = c19_q m (pow2_pos e)

let ints_of_csv (s : string) : int list = List.map int_of_string (String.split_on_char ',' s)

let table_index = function "rxd" -> 0 | "rxf" -> 1 | "mod" -> 2 | "mtr" -> 3 | _ -> -1
(* (integer taps, exponent) *)
let taps_of (tbl : string) : z list * int =
  if String.length tbl > 2 && String.sub tbl 0 2 = "c:" then
    (List.map z_of_int (ints_of_csv (String.sub tbl 2 (String.length tbl - 2))), 0)
  else
    let (m, e) = List.nth c19_tables (table_index tbl) in (m, int_of_n e)

let rec take n l = if n <= 0 then [] else match l with [] -> [] | x :: t -> x :: take (n - 1) t
let rec drop n l = if n <= 0 then l else match l with [] -> [] | _ :: t -> drop (n - 1) t

(* feed the extracted run function in chunks so that its (non tail-recursive) recursion stays shallow *)
let chunked (run : 's -> 'a list -> 's * 'b list) (st : 's) (xs : 'a list) : 's * 'b list =
  let rec go st xs acc =
    if xs = [] then (st, List.concat (List.rev acc))
    else let (st', ys) = run st (take 1000 xs) in go st' (drop 1000 xs) (ys :: acc) in
  go st xs []

let coef_of (c : string) : (qc list * qc list) =
  let conv (m, e) = List.map (fun x -> q_of_z x (int_of_n e)) m in
  match c with
  | "corrd" -> let (b, a) = List.nth c19_iir_coefs 0 in (conv b, conv a)
  | "corrf" -> let (b, a) = List.nth c19_iir_coefs 1 in (conv b, conv a)
  | "evm" -> let (b, a) = List.nth c19_iir_coefs 2 in (conv b, conv a)
  | _ ->
    (match String.split_on_char ':' c with
     | ["c"; qc; b; a] -> let e = int_of_string qc in
       (List.map (fun m -> q_of m e) (ints_of_csv b), List.map (fun m -> q_of m e) (ints_of_csv a))
     | _ -> failwith "bad coef")

let rho_of (s : string) : qc =
  match s with
  | "d" -> let (m, e) = List.nth c19_rho 0 in q_of_z (List.hd m) (int_of_n e)
  | "f" -> let (m, e) = List.nth c19_rho 1 in q_of_z (List.hd m) (int_of_n e)
  | _ -> q_of 1 0

let () =
  iter_lines (fun line ->
    match split_ws line with
    | "fir" :: tbl :: reset :: emit :: ks ->
      let (taps, e) = taps_of tbl in
      let reset = int_of_string reset and emit = int_of_string emit in
      let xs = List.map z_of_int (take emit (List.map int_of_string ks)) in
      let st0 = c19_fir_init_z (nat_of_int (List.length taps)) in
      let ys =
        if reset >= 0 && reset < List.length xs then begin
          let (st1, y1) = chunked (c19_fir_run_z taps) st0 (take reset xs) in
          let (_, y2) = chunked (c19_fir_run_z taps) (c19_fir_reset_z st1) (drop reset xs) in
          y1 @ y2
        end else snd (chunked (c19_fir_run_z taps) st0 xs) in
      Printf.printf "e=%d y=%s\n" e (String.concat "," (List.map hex_of_z ys))
    | "firspec" :: tbl :: emit :: ks ->
      let (taps, e) = taps_of tbl in
      let emit = int_of_string emit in
      let xs = List.map z_of_int (take emit (List.map int_of_string ks)) in
      let ys = List.init (List.length xs) (fun n -> c19_spec_conv_at_z taps xs (nat_of_int n)) in
      Printf.printf "e=%d y=%s\n" e (String.concat "," (List.map hex_of_z ys))
    | "iir" :: coef :: qx :: emit :: ks ->
      let (b, a) = coef_of coef in
      let qx = int_of_string qx and emit = int_of_string emit in
      let xs = List.map (fun k -> q_of k qx) (take emit (List.map int_of_string ks)) in
      let (_, ys) = chunked (c19_iir_run_q b a) (c19_iir_init_q (nat_of_int (List.length b))) xs in
      Printf.printf "y=%s\n" (String.concat "," (List.map hex_of_q ys))
    | "iirspec" :: coef :: qx :: emit :: ks ->
      let (b, a) = coef_of coef in
      let qx = int_of_string qx and emit = int_of_string emit in
      let xs = List.map (fun k -> q_of k qx) (take emit (List.map int_of_string ks)) in
      let (_, ys) = chunked (c19_iir_run_q b a) (c19_iir_init_q (nat_of_int (List.length b))) xs in
      let rs = List.init (List.length xs) (fun n -> c19_spec_iir_rhs_q b a xs ys (nat_of_int n)) in
      Printf.printf "y=%s\n" (String.concat "," (List.map hex_of_q rs))
    | "sdft" :: n :: re :: ere :: im :: eim :: rho :: qx :: emit :: ks ->
      let n = int_of_string n in
      let w = (q_of (int_of_string re) (int_of_string ere), q_of (int_of_string im) (int_of_string eim)) in
      let qx = int_of_string qx and emit = int_of_string emit in
      let xs = List.map (fun k -> q_of k qx) (take emit (List.map int_of_string ks)) in
      let (_, ys) = chunked (c19_sdft_run_q (nat_of_int n) w (rho_of rho)) (c19_sdft_init_q (nat_of_int n)) xs in
      Printf.printf "y=%s\n" (String.concat "," (List.map hex_of_c ys))
    | "nsdft" :: n :: k :: rest ->
      let n = int_of_string n and k = int_of_string k in
      let rec coeffs i rest acc =
        if i = 0 then (List.rev acc, rest) else
        match rest with
        | re :: ere :: im :: eim :: t ->
          coeffs (i - 1) t ((q_of (int_of_string re) (int_of_string ere), q_of (int_of_string im) (int_of_string eim)) :: acc)
        | _ -> failwith "bad nsdft" in
      let (ws, rest) = coeffs k rest [] in
      (match rest with
       | qx :: emit :: ks ->
         let qx = int_of_string qx and emit = int_of_string emit in
         let xs = List.map (fun v -> q_of v qx) (take emit (List.map int_of_string ks)) in
         let (_, ys) = chunked (c19_nsdft_run_q (nat_of_int n) ws) (c19_nsdft_init_q (nat_of_int n) (nat_of_int k)) xs in
         Printf.printf "y=%s\n" (String.concat "," (List.map (fun r -> String.concat ";" (List.map hex_of_c r)) ys))
       | _ -> print_endline "?")
    | "dft" :: re :: ere :: im :: eim :: qx :: ks ->
      let qx = int_of_string qx in
      let w = (q_of (int_of_string re) (int_of_string ere), q_of (int_of_string im) (int_of_string eim)) in
      let v = List.map (fun k -> q_of (int_of_string k) qx) ks in
      Printf.printf "y=%s\n" (hex_of_c (c19_spec_dft_bin_q w v))
    | ["cascade"; t1; t2] ->
      let (a, e1) = taps_of t1 and (b, e2) = taps_of t2 in
      Printf.printf "e=%d y=%s\n" (e1 + e2) (String.concat "," (List.map hex_of_z (c19_spec_convolve_z a b)))
    | ["table"; t] ->
      let (a, e) = taps_of t in
      Printf.printf "e=%d y=%s\n" e (String.concat "," (List.map hex_of_z a))
    | _ -> print_endline "?")
