(* Frame-decoder driver: same protocol as harness/decoder.cpp.
     new                          -> ok
     frame <L|S|P|B> <hex736> <r> -> res=<R> cost=<c> state=<S> cbs=<n>[ <type>:<bytes>:<cost>]...
     peek                         -> seg=<hex> lsf=<hex> *)
open Fd_model
(*#include conv.inc.ml*)
(*#include conv_z.inc.ml*)

let res_name = function RFail -> "FAIL" | ROk -> "OK" | REos -> "EOS" | RIncomplete -> "INCOMPLETE" | RPacketIncomplete -> "PACKET_INCOMPLETE"
let mode_name = function MLsf -> "LSF" | MStream -> "STREAM" | MBasic -> "BASIC_PACKET" | MFull -> "FULL_PACKET" | MBert -> "BERT"
let type_name = function FLsf -> "LSF" | FLich -> "LICH" | FStream -> "STREAM" | FBasic -> "BASIC_PACKET" | FFull -> "FULL_PACKET" | FBert -> "BERT"

let soft_of_hex (s : string) : z list =
  List.init (String.length s / 2) (fun i ->
    let v = int_of_string ("0x" ^ String.sub s (2 * i) 2) in z_of_int (if v > 127 then v - 256 else v))

let () =
  let st = ref fd_init in
  iter_lines (fun line ->
    match split_ws line with
    | ["new"] -> st := fd_init; print_endline "ok"
    | ["frame"; sw; hex; r] ->
      let sync = match sw.[0] with 'L' -> SLsf | 'S' -> SStream | 'P' -> SPacket | _ -> SBert in
      let (((s', res), cost), cbs) = fd_step !st sync (soft_of_hex hex) (r <> "0") in
      st := s';
      let c = match cost with None -> 0 | Some z -> int_of_z z in
      let cbs_s = String.concat "" (List.map (fun cb ->
        Printf.sprintf " %s:%s:%d" (type_name cb.cb_type) (hex_of_bytes cb.cb_bytes) (int_of_z cb.cb_cost)) cbs) in
      Printf.printf "res=%s cost=%d state=%s cbs=%d%s\n" (res_name res) c (mode_name (fd_mode s')) (List.length cbs) cbs_s
    | ["peek"] -> Printf.printf "seg=%02x lsf=%s\n" (int_of_n (fd_seg !st)) (hex_of_bytes (fd_lsf !st))
    | _ -> print_endline "?");
  flush stdout
