(* C04 driver: one case per line on stdin, one canonical result per line on stdout.
   usage: c04_driver impl|fast|spec|lut *)
open C04_model
(*#include conv.inc.ml*)
let rec int_of_nat = function O -> 0 | S n -> 1 + int_of_nat n
let hex s = int_of_string ("0x" ^ s)
let () =
  let mode = if Array.length Sys.argv > 1 then Sys.argv.(1) else "impl" in
  if mode = "lut" then
    List.iteri (fun i (a, b) -> Printf.printf "row=%d a=%08x b=%04x\n" i (int_of_n a) (int_of_n b)) c04_lut
  else begin
    let dec = if mode = "fast" then c04_decode_fast else c04_decode in
    let show = function
      | DOk o -> Printf.sprintf "ok=1 out=%06x" (int_of_n o)
      | DFail -> "ok=0"
      | DEnd -> "end" in
    (* digest of a block of 256 consecutive words; same arithmetic as the harness *)
    let blk hi =
      let h = ref 7 and nok = ref 0 in
      for lo = 0 to 255 do
        let r = (hi lsl 8) lor lo in
        let v = match dec (n_of_int r) with DOk o -> incr nok; int_of_n o + 1 | DFail -> 0 | DEnd -> 0x3000000 in
        h := (!h * 31 + v) mod 1000000007
      done;
      Printf.sprintf "blk=%04x h=%d ok=%d" hi !h !nok in
    iter_lines (fun line ->
      match split_ws line with
      | ["enc"; d] ->
        let d = n_of_int (hex d) in
        if mode = "spec" then Printf.printf "enc24=%06x\n" (int_of_n (c04_spec_encode24 d))
        else Printf.printf "enc24=%06x\n" (int_of_n (c04_encode24 d))
      | ["enc23"; d] -> Printf.printf "enc23=%06x\n" (int_of_n (c04_encode23 (n_of_int (hex d))))
      | ["syn"; x] -> Printf.printf "syn=%08x par=%d\n" (int_of_n (c04_syndrome (n_of_int (hex x)))) (if c04_parity (n_of_int (hex x)) then 1 else 0)
      | ["dec"; r] ->
        if mode = "spec" then
          (match c04_spec_decode (n_of_int (hex r)) with
           | Some d -> Printf.printf "ok=1 data=%03x\n" (int_of_n d)
           | None -> print_endline "ok=0")
        else print_endline (show (dec (n_of_int (hex r))))
      | ["idx"; r] -> Printf.printf "idx=%d\n" (int_of_nat (c04_lookup (n_of_int (hex r))))
      | ["blk"; hi] -> print_endline (blk (hex hi))
      | _ -> print_endline "?")
  end
