(* C18 driver: same protocol as harness/c18.cpp, on the extracted ImplPRBS.
   usage: c18_driver impl|spec     (spec: only the G ops of a fresh generator are answered, with the specification's sequence) *)
open C18_model
(*#include conv.inc.ml*)
let rec nat_of_int (i : int) : nat = if i <= 0 then O else S (nat_of_int (i - 1))
let () =
  let spec = Array.length Sys.argv > 1 && Sys.argv.(1) = "spec" in
  iter_lines (fun line ->
    let g = ref c18_new and v = ref c18_new in
    let out = Buffer.create 4096 in
    let spec_pos = ref 0 in
    let obs r =
      Buffer.add_string out (Printf.sprintf "%d%d:%d:%d," (if r then 1 else 0) (if c18_synced !v then 1 else 0)
                               (int_of_n (c18_errors !v)) (int_of_n (c18_bits !v))) in
    let gen () = let (g', b) = c18_generate !g in g := g'; b in
    let vald b = let (v', r) = c18_validate !v b in v := v'; obs r in
    List.iter (fun op ->
      let c = op.[0] and arg = String.sub op 1 (String.length op - 1) in
      match c with
      | 'G' ->
        let n = int_of_string arg in
        Buffer.add_char out 'g';
        if spec then begin
          let l = c18_spec_prbs (nat_of_int (!spec_pos + n)) in
          List.iteri (fun i b -> if i >= !spec_pos then Buffer.add_char out (if b then '1' else '0')) l;
          spec_pos := !spec_pos + n
        end else
          for _ = 1 to n do Buffer.add_char out (if gen () then '1' else '0') done;
        Buffer.add_char out ' '
      | 'S' -> let n = int_of_string arg in if spec then spec_pos := !spec_pos + n else for _ = 1 to n do ignore (gen ()) done
      | 'Q' -> if spec then spec_pos := 0 else g := c18_reset !g
      | 'R' -> v := c18_reset !v
      | 'V' -> if not spec then (String.iter (fun ch -> vald (ch = '1')) arg; Buffer.add_char out ' ')
      | 'T' ->
        if not spec then begin
          let n, flips =
            match String.index_opt arg ':' with
            | None -> int_of_string arg, []
            | Some i ->
              int_of_string (String.sub arg 0 i),
              List.filter_map (fun t -> if t = "" then None else Some (int_of_string t))
                (String.split_on_char ',' (String.sub arg (i + 1) (String.length arg - i - 1))) in
          let fl = Hashtbl.create 16 in
          List.iter (fun i -> Hashtbl.replace fl i ()) flips;
          for i = 0 to n - 1 do
            let b = gen () in
            vald (if Hashtbl.mem fl i then not b else b)
          done;
          Buffer.add_char out ' '
        end
      | _ -> Buffer.add_string out "? ") (split_ws line);
    print_endline (Buffer.contents out))
