(* C09 driver: one case per line on stdin, one canonical result per line on stdout.
   usage: c09_driver impl|spec *)
open C09_model
(*#include conv.inc.ml*)
let () =
  let spec = Array.length Sys.argv > 1 && Sys.argv.(1) = "spec" in
  let crc = if spec then c09_spec_crc else c09_impl_crc in
  let hi_lo c = let c = int_of_n c in [n_of_int (c lsr 8); n_of_int (c land 255)] in
  let crc_bytes m = if spec then hi_lo (c09_spec_crc m) else c09_impl_crc_bytes m in
  iter_lines (fun line ->
    match split_ws line with
    | ["crc"; h] ->
      let m = bytes_of_hex h in
      let b = crc_bytes m in
      Printf.printf "get=%04x bytes=%s res=%04x\n" (int_of_n (crc m)) (hex_of_bytes b) (int_of_n (crc (m @ b)))
    | ["err"; hm; he] ->
      let m = bytes_of_hex hm and e = bytes_of_hex he in
      Printf.printf "a=%04x b=%04x\n" (int_of_n (crc m)) (int_of_n (crc (xor_bytes m e)))
    | "seq" :: ops ->
      (* one engine object, operations in order: R reset, G get, B get_bytes, xx feed byte *)
      let reg = ref c09_reg_init in
      let out = Buffer.create 64 in
      List.iter (fun op ->
        match op with
        | "R" -> reg := c09_reg_reset
        | "G" -> Buffer.add_string out (Printf.sprintf " g=%04x" (int_of_n (c09_reg_get !reg)))
        | "B" -> Buffer.add_string out (" b=" ^ hex_of_bytes (c09_reg_get_bytes !reg))
        | h -> reg := c09_reg_byte !reg (n_of_int (int_of_string ("0x" ^ h)))) ops;
      print_endline ("seq" ^ Buffer.contents out)
    | ["sweep"; h] ->
      (* crc(byte, reg) for every 16-bit register value *)
      let byte = n_of_int (int_of_string ("0x" ^ h)) in
      let b = Buffer.create 270000 in
      for r = 0 to 65535 do Buffer.add_string b (Printf.sprintf "%04x" (int_of_n (c09_reg_byte (n_of_int r) byte))) done;
      print_endline (Digest.to_hex (Digest.string (Buffer.contents b)) ^ " " ^ String.sub (Buffer.contents b) 0 64)
    | _ -> print_endline "?")
