(* C20 driver: the specification's LSF bytes and the report line for (src, dst, can, meta, crc).
   line <srchex> <dsthex|-> <can> <metahex> <crchex>   ->   lsf=<hex> line=<hex> valid=<0|1>
   (callsigns as hex of their ASCII characters; "-" as destination = broadcast) *)
open C20_model
type string = Stdlib.String.t
(*#include conv.inc.ml*)
let valid cs =
  let n = List.length cs in
  n >= 1 && n <= 9 && List.for_all (fun c -> match c20_char_value c with Some (S _) -> true | _ -> false) cs
let () =
  iter_lines (fun line ->
    match split_ws line with
    | ["line"; src; dst; can; meta; crc] ->
      let s = bytes_of_hex src in
      let d = if dst = "-" then None else Some (bytes_of_hex dst) in
      let c = n_of_int (int_of_string can) in
      let m = bytes_of_hex meta and k = bytes_of_hex crc in
      let ok = valid s && (match d with None -> true | Some x -> valid x) in
      Printf.printf "lsf=%s line=%s valid=%d\n" (hex_of_bytes (c20_spec_lsf d s c m k)) (hex_of_bytes (c20_spec_lsf_line d s c m k)) (if ok then 1 else 0)
    | _ -> print_endline "?")
