(* C11 driver: one case per line on stdin, one canonical result per line on stdout.
   usage: c11_driver impl | spec
   int8_t arrays travel as hex of their two's-complement bytes. *)
open C11_model
(*#include conv.inc.ml*)
(*#include conv_z.inc.ml*)
let z_of_byte (b : int) : z = z_of_int (if b >= 128 then b - 256 else b)
let zs_of_hex (s : string) : z list = List.map (fun x -> z_of_byte (int_of_n x)) (bytes_of_hex s)
let hex_of_zs (l : z list) : string =
  if l = [] then "-" else String.concat "" (List.map (fun x -> Printf.sprintf "%02x" ((int_of_z x) land 255)) l)
(* geometry name -> (matrix number, encoded length, frame length) *)
let geom = function
  | "lsf" -> (1, 488, 368) | "stream" -> (2, 296, 272) | "bert" -> (2, 402, 368) | "packet" -> (3, 420, 368)
  | "s300" -> (2, 300, 275) | "p424" -> (3, 424, 371)   (* depunctured<M> only: M must be a multiple of the matrix size *)
  | _ -> (0, 0, 0)
(* packed geometries of M17Modulator: (matrix number, IN bytes, OUT bytes) *)
let geomb = function
  | "lsfb" -> (1, 61, 46) | "streamb" -> (2, 37, 34)
  | _ -> (0, 0, 0)
let triples l = String.concat " " (List.map (fun ((a, b), c) -> Printf.sprintf "%d,%d,%d" (int_of_n a) (int_of_n b) (int_of_n c)) l)
let () =
  let spec = Array.length Sys.argv > 1 && Sys.argv.(1) = "spec" in
  if spec then begin
    List.iter (fun k -> Printf.printf "matrix %d %s\n" k (hex_of_bytes (c11_spec_matrix (n_of_int k)))) [1; 2; 3];
    List.iter (fun g -> let (k, i, _) = geom g in
      Printf.printf "mask %s %s\n" g (String.concat "" (List.map (fun b -> if b then "1" else "0") (c11_spec_mask (n_of_int k) (nat_of_int i)))))
      ["lsf"; "stream"; "bert"; "packet"; "s300"; "p424"];
    List.iter (fun g -> let (k, i, _) = geomb g in
      Printf.printf "mask %s %s\n" g (String.concat "" (List.map (fun b -> if b then "1" else "0") (c11_spec_mask (n_of_int k) (nat_of_int (8 * i))))))
      ["lsfb"; "streamb"]
  end else
  iter_lines (fun line ->
    match split_ws line with
    | ["mat"] ->
      print_endline (String.concat " " (List.map (fun k -> hex_of_bytes (c11_matrix (n_of_int k))) [1; 2; 3]))
    | ["sites"] ->
      let ((d, p), pb) = c11_sites in Printf.printf "d: %s | p: %s | pb: %s\n" (triples d) (triples p) (triples pb)
    | [("p" | "pu"); g; prev; data] ->
      let (k, _, o) = geom g in
      let (out, cnt) = c11_puncture (n_of_int k) (nat_of_int o) (zs_of_hex data) (zs_of_hex prev) in
      Printf.printf "%s %d\n" (hex_of_zs out) (int_of_nat cnt)
    | ["pb"; g; prev; data] ->
      let (k, _, o) = geomb g in
      let (out, cnt) = c11_puncture_bytes (n_of_int k) (nat_of_int o) (bytes_of_hex data) (bytes_of_hex prev) in
      Printf.printf "%s %d\n" (hex_of_bytes out) (int_of_nat cnt)
    | ["d"; g; prev; data] ->
      let (k, i, _) = geom g in
      let (out, cnt) = c11_depuncture (n_of_int k) (nat_of_int i) (zs_of_hex data) (zs_of_hex prev) in
      Printf.printf "%s %d\n" (hex_of_zs out) (int_of_nat cnt)
    | ["dd"; g; data] ->
      let (k, i, _) = geom g in
      print_endline (hex_of_zs (c11_depunctured (n_of_int k) (nat_of_int i) (zs_of_hex data)))
    | _ -> print_endline "?")
