(* C14 driver: one case per line on stdin, one canonical result per line on stdout.
   usage: c14_driver impl|spec
     call d|s <hex>                           -> addr=<6 bytes>
     lsf <dst hex|-> <src hex>                -> lsf=<30 bytes> frame=<48 bytes>
     lsfframe <lsf hex>                       -> frame=<48 bytes> crc=<CRC of the 30 bytes, 0000 if valid>
     frame <lsf hex> <n> <fn> <payload hex> <eos 0|1>   -> frame=<48 bytes>
     run <junk> <dst hex|-> <src hex> <codec2 table hex|-> <items>   (impl only)
          items: comma separated, integer = sample, t = timeout, on = ptt_on, off = ptt_off
                                              -> mode=<n> rem=<n> bytes=<hex> audio=<md5>    or   blocked
     runsegs <junk> <table hex|-> <dst hex|->/<src hex>/<items> ...   (impl only; source()/dest() between segments)
     keyup <dst hex|-> <src hex> <table hex|-> <samples csv|-> <last>   (spec only)
                                              -> bytes=<hex> audio=<md5>
     queue <blocks 0|1> <cap> <nbytes> <trace of P/C>  -> todo=<n> fifo=<n> got=<n> inorder=<0|1> *)
open C14_model
type string = Stdlib.String.t   (* the extracted model defines Coq's [string]; restore OCaml's *)
(*#include conv.inc.ml*)
(*#include conv_z.inc.ml*)
let rec chunks8 = function
  | [] -> []
  | l -> let rec take n l = if n = 0 then ([], l) else (match l with [] -> ([], []) | x :: r -> let (a, b) = take (n - 1) r in (x :: a, b)) in
         let (a, b) = take 8 l in a :: chunks8 b
let audio_md5 (reqs : z list list) : string =
  let s = String.concat ";" (List.map (fun r -> String.concat "," (List.map (fun v -> string_of_int (int_of_z v)) r)) reqs) in
  Digest.to_hex (Digest.string s)
let item_of_string (s : string) : item =
  match s with
  | "t" -> Ev Timeout
  | "on" -> PttOn
  | "off" -> PttOff
  | v -> Ev (Sample (z_of_int (int_of_string v)))
let csv s = if s = "-" then [] else String.split_on_char ',' s
let () =
  let spec = Array.length Sys.argv > 1 && Sys.argv.(1) = "spec" in
  iter_lines (fun line ->
    match split_ws line with
    | ["call"; k; h] ->
      let s = bytes_of_hex h in
      let a = if spec then c14_spec_address (k = "d") s else c14_impl_callsign s in
      Printf.printf "addr=%s\n" (hex_of_bytes a)
    | ["lsf"; hd; hs] ->
      let d = bytes_of_hex hd and s = bytes_of_hex hs in
      let lsf = if spec then c14_spec_lsf d s else c14_impl_lsf d s in
      let fr = if spec then c14_spec_lsf_frame lsf else c14_impl_lsf_frame (n_of_int 0x5a) lsf in
      Printf.printf "lsf=%s frame=%s\n" (hex_of_bytes lsf) (hex_of_bytes fr)
    | ["lsfframe"; hl] ->
      let lsf = bytes_of_hex hl in
      let fr = if spec then c14_spec_lsf_frame lsf else c14_impl_lsf_frame (n_of_int 0x5a) lsf in
      Printf.printf "frame=%s crc=%04x\n" (hex_of_bytes fr) (int_of_n (c14_spec_crc lsf))
    | ["frame"; hl; n; fn; hp; eos] ->
      let lsf = bytes_of_hex hl and p = bytes_of_hex hp and n = int_of_string n and fn = int_of_string fn and eos = eos = "1" in
      let fr = if spec then c14_spec_stream_frame lsf (n_of_int n) (n_of_int fn) p eos
               else c14_impl_stream_frame (n_of_int 0xc3) lsf (nat_of_int n) (n_of_int (if eos then fn lor 0x8000 else fn)) p in
      Printf.printf "frame=%s\n" (hex_of_bytes fr)
    | ["run"; junk; hd; hs; ht; items] ->
      let table = chunks8 (bytes_of_hex ht) in
      (match c14_impl_run (n_of_int (int_of_string junk)) (bytes_of_hex hd) (bytes_of_hex hs) table (List.map item_of_string (csv items)) with
       | Some (((m, out), reqs), rem) ->
         Printf.printf "mode=%d rem=%d bytes=%s audio=%s\n" (int_of_n m) (int_of_nat rem) (hex_of_bytes out) (audio_md5 reqs)
       | None -> print_endline "blocked")
    | "runsegs" :: junk :: ht :: segs ->
      (* each segment: <dst hex|->/<src hex>/<items csv|-> *)
      let table = chunks8 (bytes_of_hex ht) in
      let seg s = match String.split_on_char '/' s with
        | [hd; hs; items] -> ((bytes_of_hex hd, bytes_of_hex hs), List.map item_of_string (csv items))
        | _ -> failwith "bad segment" in
      (match c14_impl_run_segments (n_of_int (int_of_string junk)) table (List.map seg segs) with
       | Some (((m, out), reqs), rem) ->
         Printf.printf "mode=%d rem=%d bytes=%s audio=%s\n" (int_of_n m) (int_of_nat rem) (hex_of_bytes out) (audio_md5 reqs)
       | None -> print_endline "blocked")
    | ["keyup"; hd; hs; ht; samples; last] ->
      let table = chunks8 (bytes_of_hex ht) in
      let (out, reqs) = c14_spec_keyup (bytes_of_hex hd) (bytes_of_hex hs) table
                          (List.map (fun v -> z_of_int (int_of_string v)) (csv samples)) (z_of_int (int_of_string last)) in
      Printf.printf "bytes=%s audio=%s\n" (hex_of_bytes out) (audio_md5 reqs)
    | ["queue"; b; cap; nb; tr] ->
      let bytes = List.init (int_of_string nb) (fun i -> n_of_int (i land 255)) in
      let trace = List.init (String.length tr) (fun i -> if tr.[i] = 'P' then Producer else Consumer) in
      let ((todo, fifo), got) = c14_queue_run (b = "1") (nat_of_int (int_of_string cap)) bytes trace in
      let all = got @ fifo @ todo in
      Printf.printf "todo=%d fifo=%d got=%d inorder=%d\n" (List.length todo) (List.length fifo) (List.length got) (if all = bytes then 1 else 0)
    | _ -> print_endline "?")
