(* conversions between OCaml ints/strings and the extracted Coq numbers (parsing/printing only) *)
let rec pos_of_int (i : int) : positive =
  if i <= 1 then XH else if i land 1 = 1 then XI (pos_of_int (i lsr 1)) else XO (pos_of_int (i lsr 1))
let rec int_of_pos (p : positive) : int =
  match p with XH -> 1 | XO q -> 2 * int_of_pos q | XI q -> 2 * int_of_pos q + 1
let n_of_int (i : int) : n = if i = 0 then N0 else Npos (pos_of_int i)
let int_of_n (x : n) : int = match x with N0 -> 0 | Npos p -> int_of_pos p
let bytes_of_hex (s : string) : n list =
  let s = if s = "-" then "" else s in
  List.init (String.length s / 2) (fun i -> n_of_int (int_of_string ("0x" ^ String.sub s (2 * i) 2)))
let hex_of_bytes (l : n list) : string =
  if l = [] then "-" else String.concat "" (List.map (fun x -> Printf.sprintf "%02x" (int_of_n x)) l)
let split_ws (s : string) : string list =
  List.filter (fun x -> x <> "") (String.split_on_char ' ' (String.trim s))
let iter_lines (f : string -> unit) : unit =
  try while true do f (input_line stdin) done with End_of_file -> ()
