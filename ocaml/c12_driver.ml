(* C12 driver: one case per line on stdin, one canonical result per line on stdout (same protocol as harness/c12.cpp).
   usage: c12_driver impl|spec
     impl:  table <f|d> <L>          -> rows=<n> <thr bits hex>:<i>:<j> ...
            llr <f|d> <L> <bits hex> -> <i> <j>
     spec:  llr <f|d> <L> <bits hex> -> finite=<0|1> guard=<0|1> dibit=<b1><b0>   (nearest level's Gray dibit of the exact value)
            info                     -> width=<modem width> float=<0|1> *)
open C12_model
(* conv.inc.ml is not included: it mentions the extracted type [n], which this model does not contain *)
let rec int_of_pos (p : positive) : int =
  match p with XH -> 1 | XO q -> 2 * int_of_pos q | XI q -> 2 * int_of_pos q + 1
let rec pos_of_int (i : int) : positive =
  if i <= 1 then XH else if i land 1 = 1 then XI (pos_of_int (i lsr 1)) else XO (pos_of_int (i lsr 1))
let z_of_int (i : int) : z = if i = 0 then Z0 else if i > 0 then Zpos (pos_of_int i) else Zneg (pos_of_int (- i))
let int_of_z (x : z) : int = match x with Z0 -> 0 | Zpos p -> int_of_pos p | Zneg p -> - (int_of_pos p)
let split_ws (s : string) : string list =
  List.filter (fun x -> x <> "") (String.split_on_char ' ' (String.trim s))
let iter_lines (f : string -> unit) : unit =
  try while true do f (input_line stdin) done with End_of_file -> ()

(* hex string <-> extracted Z, without going through OCaml ints (64-bit patterns do not fit in 63 bits) *)
let z_of_hex (s : string) : z =
  let bits = ref [] in
  String.iter (fun c ->
    let d = int_of_string ("0x" ^ String.make 1 c) in
    bits := (d land 1 = 1) :: (d land 2 = 2) :: (d land 4 = 4) :: (d land 8 = 8) :: !bits) s;
  (* !bits is least-significant first after the per-digit reversal below *)
  let msb_first = List.rev !bits in
  (* each digit was pushed as b0 :: b1 :: b2 :: b3 :: acc, so List.rev gives digit order msb..lsb with bits b3 b2 b1 b0 *)
  let rec strip = function false :: r -> strip r | l -> l in
  match strip msb_first with
  | [] -> Z0
  | _ :: rest -> Zpos (List.fold_left (fun p b -> if b then XI p else XO p) XH rest)

let hex_of_z (digits : int) (x : z) : string =
  let rec bits_of_pos p = match p with XH -> [true] | XO q -> false :: bits_of_pos q | XI q -> true :: bits_of_pos q in
  let lsb = match x with Z0 -> [] | Zpos p -> bits_of_pos p | Zneg _ -> failwith "negative bit pattern" in
  let a = Array.make (4 * digits) false in
  List.iteri (fun i b -> if i < 4 * digits then a.(i) <- b) lsb;
  String.init digits (fun k ->
    let d = digits - 1 - k in
    let v = (if a.(4*d) then 1 else 0) + (if a.(4*d+1) then 2 else 0) + (if a.(4*d+2) then 4 else 0) + (if a.(4*d+3) then 8 else 0) in
    "0123456789abcdef".[v])

let fmt_of = function "f" -> Some (f32, 8) | "d" -> Some (f64, 16) | _ -> None

let tables : (string * int, (spec_float * (z * z)) list) Hashtbl.t = Hashtbl.create 8
let table ty l t =
  match Hashtbl.find_opt tables (ty, l) with
  | Some tb -> tb
  | None -> let tb = make_llr_map t (z_of_int l) in Hashtbl.add tables (ty, l) tb; tb

let () =
  let spec = Array.length Sys.argv > 1 && Sys.argv.(1) = "spec" in
  iter_lines (fun line ->
    match split_ws line with
    | ["info"] ->
      Printf.printf "width=%d float=%d\n" (int_of_z c12_width_modem) (if c12_app_is_float then 1 else 0)
    | ["table"; ty; l] when not spec ->
      (match fmt_of ty with
       | Some (t, w) ->
         let tb = table ty (int_of_string l) t in
         Printf.printf "rows=%d" (List.length tb);
         List.iter (fun (k, (i, j)) -> Printf.printf " %s:%d:%d" (hex_of_z w (bits_of_sf t k)) (int_of_z i) (int_of_z j)) tb;
         print_newline ()
       | None -> print_endline "?")
    | ["llr"; ty; l; h] ->
      (match fmt_of ty with
       | Some (t, _) ->
         let x = sf_of_bits t (z_of_hex h) in
         if spec then begin
           if sf_finite x then begin
             let q = sF2Q x in
             let (b1, b0) = nearest_dibit q in
             Printf.printf "finite=1 guard=%d dibit=%d%d\n" (if far_from_boundariesb q then 1 else 0)
               (if b1 then 1 else 0) (if b0 then 1 else 0)
           end else print_endline "finite=0 guard=0 dibit=--"
         end else begin
           let (i, j) = llr_with (table ty (int_of_string l) t) t x in
           Printf.printf "%d %d\n" (int_of_z i) (int_of_z j)
         end
       | None -> print_endline "?")
    | _ -> print_endline "?")
