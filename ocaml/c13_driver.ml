(* C13 driver: one case per line on stdin, one canonical result per line on stdout.
   usage: c13_driver impl|spec|flags
   impl = the extracted mirror of m17-mod.cpp (ImplMod.v); spec = the extracted specification encoder (SpecM17.v). *)
open C13_model
(* the extracted model defines Coq's [string]/[ascii] (alphabet of SpecM17); restore OCaml's *)
type nonrec string = Stdlib.String.t
(*#include conv.inc.ml*)
(*#include conv_z.inc.ml*)

let bits_of_bytes (l : n list) : bool list =
  List.concat_map (fun x -> let v = int_of_n x in List.init 8 (fun i -> (v lsr (7 - i)) land 1 = 1)) l
let rec take k l = if k <= 0 then [] else match l with [] -> [] | x :: r -> x :: take (k - 1) r
let rec drop k l = if k <= 0 then l else match l with [] -> [] | _ :: r -> drop (k - 1) r
let hex_of_bits (l : bool list) : string =
  let a = Array.of_list l in
  let nb = (Array.length a + 7) / 8 in
  if nb = 0 then "-" else
  String.concat "" (List.init nb (fun k ->
    let v = ref 0 in
    for j = 0 to 7 do
      let i = 8 * k + j in
      v := (!v lsl 1) lor (if i < Array.length a && a.(i) then 1 else 0)
    done;
    Printf.sprintf "%02x" !v))
let samples_of_hex (h : string) : int list =
  let b = Array.of_list (List.map int_of_n (bytes_of_hex h)) in
  List.init (Array.length b / 2) (fun i ->
    let v = b.(2 * i) lor (b.(2 * i + 1) lsl 8) in if v >= 32768 then v - 65536 else v)
let hex_of_samples (l : z list) : string =
  if l = [] then "-" else
  String.concat "" (List.map (fun s -> let v = (int_of_z s) land 0xFFFF in Printf.sprintf "%02x%02x" (v land 255) (v lsr 8)) l)
let rec chunks k l = match l with [] -> [] | _ -> take k l :: chunks k (drop k l)
let pad k l = l @ List.init (max 0 (k - List.length l)) (fun _ -> 0)

(* content of the uninitialised int8 arrays: anything *)
let uninit = List.init 400 (fun i -> i mod 3 <> 0)

(* the 160-sample frames m17-mod hands to codec2, in call order: full 320-sample frames, the remaining samples
   zero-padded (the audio buffer of a fresh thread holds zeros; see the notes), then 320 zeros *)
let codec_inputs (samples : int list) : int list list =
  let frames = List.map (pad 320) (chunks 320 samples) in
  List.concat_map (fun f -> [take 160 f; drop 160 f]) (frames @ [pad 320 []])

let out_calls_bitstream calls = hex_of_bytes (c13_render_bitstream calls)

let () =
  let mode = if Array.length Sys.argv > 1 then Sys.argv.(1) else "impl" in
  if mode = "flags" then begin
    Printf.printf "per_instantiation=%b audio_zero_init=%b\n" c13_flag_per_instantiation c13_flag_audio_zero_init; exit 0 end;
  let spec = mode = "spec" in
  iter_lines (fun line ->
    (match split_ws line with
    | ["lsf"; can; src; dest] ->
      let can = n_of_int (int_of_string can) and src = bytes_of_hex src and dest = bytes_of_hex dest in
      if spec then begin
        let lsf = c13_spec_lsf dest src can in
        Printf.printf "lsf=%s out=%s\n" (hex_of_bytes lsf)
          (hex_of_bytes ([n_of_int 0x55; n_of_int 0xF7] @ c13_bits_bytes (c13_spec_lsf_frame lsf)))
      end else begin
        let (lsf, calls) = c13_send_lsf uninit can src dest in
        Printf.printf "lsf=%s out=%s\n" (hex_of_bytes lsf) (out_calls_bitstream calls)
      end
    | ["data"; fn; payload] ->
      let fn = int_of_string fn and payload = bytes_of_hex payload in
      if spec then
        Printf.printf "bits=%s\n" (hex_of_bits (c13_spec_stream_payload (n_of_int (fn land 0x7FFF)) payload (fn land 0x8000 <> 0)))
      else
        Printf.printf "bits=%s\n" (hex_of_bits (c13_make_data_frame uninit (n_of_int fn) payload))
    | ["lich"; seg; n] ->
      let seg = bytes_of_hex seg and n = int_of_string n in
      if spec then begin
        if n >= 6 then print_endline "bits=n/a" else begin
          let lsf = List.init 30 (fun i -> if i >= 5 * n && i < 5 * n + 5 then List.nth seg (i - 5 * n) else N0) in
          Printf.printf "bits=%s\n" (hex_of_bits (c13_spec_lich lsf (n_of_int n))) end
      end else
        Printf.printf "bits=%s\n" (hex_of_bits (c13_make_lich_segment seg (n_of_int n)))
    | ["frame"; lsf; n; fn; payload] ->
      let lsf = bytes_of_hex lsf and n = int_of_string n and fn = int_of_string fn and payload = bytes_of_hex payload in
      if spec then
        Printf.printf "out=%s\n" (hex_of_bytes ([n_of_int 0xFF; n_of_int 0x5D] @
          c13_bits_bytes (c13_spec_stream_frame lsf (n_of_int n) (n_of_int (fn land 0x7FFF)) payload (fn land 0x8000 <> 0))))
      else begin
        let seg = take 5 (drop (5 * n) lsf) in
        let calls = c13_send_audio_frame (c13_make_lich_segment seg (n_of_int n)) (c13_make_data_frame uninit (n_of_int fn) payload) in
        Printf.printf "out=%s\n" (out_calls_bitstream calls)
      end
    | ["bert"; bits] ->
      let all = bits_of_bytes (bytes_of_hex bits) in
      let bits197 = take 197 (all @ List.init 197 (fun _ -> false)) in
      if spec then
        Printf.printf "out=%s used=197\n" (hex_of_bytes ([n_of_int 0xDF; n_of_int 0x55] @ c13_bits_bytes (c13_spec_bert_frame bits197)))
      else begin
        let supply = bits197 @ List.init 64 (fun _ -> false) in
        let (rest, calls) = c13_bert_iteration uninit supply in
        Printf.printf "out=%s used=%d\n" (out_calls_bitstream calls) (List.length supply - List.length rest)
      end
    | ["shape"; inv; hexbytes] ->
      (* one continuous run of the RRC filter (scale 7168, optionally inverted) over the symbols of these bytes *)
      Printf.printf "out=%s\n" (hex_of_samples (c13_spec_baseband (inv = "1") (c13_bytes_symbols (bytes_of_hex hexbytes))))
    | ["run"; m; can; src; dest; audio; codec] ->
      (* m = b (bitstream), B (baseband), I (baseband, inverted) *)
      let can = n_of_int (int_of_string can) and src = bytes_of_hex src and dest = bytes_of_hex dest in
      let samples = samples_of_hex audio in
      let outs = chunks 8 (bytes_of_hex codec) in
      let invert = m = "I" in
      if spec then begin
        let payloads = List.map List.concat (chunks 2 outs) in
        if m = "b" then
          Printf.printf "out=%s\n" (hex_of_bytes (c13_spec_bitstream dest src can payloads @ List.init 10 (fun _ -> N0)))
        else
          Printf.printf "out=%s\n" (hex_of_samples (c13_spec_baseband invert
            (c13_spec_symbols dest src can payloads @ List.init 40 (fun _ -> Z0))))
      end else begin
        let ins = codec_inputs samples in
        if List.length ins <> List.length outs then print_endline "out=codec-table-mismatch" else begin
          let table = List.map2 (fun i o -> (List.map z_of_int i, o)) ins outs in
          let audio0 = List.init 320 (fun _ -> Z0) in
          let calls = c13_calls uninit audio0 table can src dest (List.map z_of_int samples) in
          if m = "b" then Printf.printf "out=%s\n" (out_calls_bitstream calls)
          else Printf.printf "out=%s\n" (hex_of_samples (c13_render_baseband invert calls))
        end
      end
    | ["runz"; can; src; dest; nsamples; codec] ->
      (* long all-zero audio: specification side only (the model is compared on the `run` cases) *)
      let can = n_of_int (int_of_string can) and src = bytes_of_hex src and dest = bytes_of_hex dest in
      let payloads = List.map List.concat (chunks 2 (chunks 8 (bytes_of_hex codec))) in
      ignore nsamples;
      if spec then Printf.printf "out=%s\n" (hex_of_bytes (c13_spec_bitstream dest src can payloads @ List.init 10 (fun _ -> N0)))
      else print_endline "out=n/a"
    | ["dirty"; can; src; audio; codec; padv] ->
      (* transmit() alone (no preamble, no LSF frame) with the audio buffer initially holding [padv] *)
      let can = n_of_int (int_of_string can) and src = bytes_of_hex src in
      let samples = samples_of_hex audio and padv = int_of_string padv in
      let outs = chunks 8 (bytes_of_hex codec) in
      if spec then begin
        let payloads = List.map List.concat (chunks 2 outs) in
        let all = c13_spec_bitstream [] src can payloads @ List.init 10 (fun _ -> N0) in
        Printf.printf "out=%s\n" (hex_of_bytes (drop 96 all))
      end else begin
        let first = samples @ List.init (max 0 (320 - List.length samples)) (fun _ -> padv) in
        let ins = if samples = [] then codec_inputs [] else [take 160 first; drop 160 first] @ codec_inputs [] in
        if List.length ins <> List.length outs then print_endline "out=codec-table-mismatch" else begin
          let table = List.map2 (fun i o -> (List.map z_of_int i, o)) ins outs in
          let audio0 = List.init 320 (fun _ -> z_of_int padv) in
          let calls = c13_calls uninit audio0 table can src [] (List.map z_of_int samples) in
          Printf.printf "out=%s\n" (out_calls_bitstream (drop 2 calls))
        end
      end
    | _ -> print_endline "?");
    flush stdout)
