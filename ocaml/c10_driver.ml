(* C10 driver: one case per line on stdin, one canonical result per line on stdout.
   usage: c10_driver impl | spec
   int8_t arrays travel as hex of their two's-complement bytes. *)
open C10_model
(*#include conv.inc.ml*)
(*#include conv_z.inc.ml*)
let z_of_byte (b : int) : z = z_of_int (if b >= 128 then b - 256 else b)
let zs_of_hex (s : string) : z list = List.map (fun x -> z_of_byte (int_of_n x)) (bytes_of_hex s)
let hex_of_zs (l : z list) : string =
  if l = [] then "-" else String.concat "" (List.map (fun x -> Printf.sprintf "%02x" ((int_of_z x) land 255)) l)
let () =
  let spec = Array.length Sys.argv > 1 && Sys.argv.(1) = "spec" in
  if spec then begin
    Printf.printf "pi %s\n" (String.concat " " (List.map (fun x -> string_of_int (int_of_n x)) c10_spec_pi_table));
    Printf.printf "dc %s\n" (hex_of_bytes c10_spec_dc)
  end else
  iter_lines (fun line ->
    match split_ws line with
    | ["sites"] ->
      let n = int_of_nat c10_nsites in
      let one k = let ((f1, f2), kk) = c10_site (nat_of_int k) in Printf.sprintf "%d,%d,%d" (int_of_n f1) (int_of_n f2) (int_of_n kk) in
      print_endline (String.concat " " (List.init n one))
    | ["il"; k; "i8"; h] -> print_endline (hex_of_zs (c10_interleave (nat_of_int (int_of_string k)) (zs_of_hex h)))
    | ["il"; k; "di8"; h] -> print_endline (hex_of_zs (c10_deinterleave (nat_of_int (int_of_string k)) (zs_of_hex h)))
    | ["il"; k; "b"; h] -> print_endline (hex_of_bytes (c10_interleave_bytes (nat_of_int (int_of_string k)) (bytes_of_hex h)))
    | ["il"; k; "db"; h] -> print_endline (hex_of_bytes (c10_deinterleave_bytes (nat_of_int (int_of_string k)) (bytes_of_hex h)))
    | ["rnd"; "soft"; h] -> print_endline (hex_of_zs (c10_derandomize_soft (zs_of_hex h)))
    | ["rnd"; "bits"; h] -> print_endline (hex_of_zs (c10_randomize_int8 (zs_of_hex h)))
    | ["rnd"; "nbits"; h] -> print_endline (hex_of_bytes (c10_randomize_bits (bytes_of_hex h)))
    | ["rnd"; "bytes"; h] -> print_endline (hex_of_bytes (c10_randomize_bytes (bytes_of_hex h)))
    | ["dc"] -> print_endline (hex_of_zs c10_dc_soft)
    | _ -> print_endline "?")
