(* C02 driver: same protocol as harness/c02.cpp (q / x / t lines), calling the extracted ImplViterbi model.
   usage: c02_driver [d0 d1 scan[:start]]   tie-break policy as three 0/1 digits, optionally the initial candidate state of the
   end-state scan (default 000 = the source's strict comparisons, start = the regenerated vit_scan_start) *)
open C02_model
(*#include conv.inc.ml*)
(*#include conv_z.inc.ml*)

let tb =
  let s = if Array.length Sys.argv > 1 then Sys.argv.(1) else "000" in
  let start = if String.length s > 4 && s.[3] = ':' then nat_of_int (int_of_string (String.sub s 4 (String.length s - 4)))
              else source_tiebreak.tb_start in
  { tb_d0 = s.[0] = '1'; tb_d1 = s.[1] = '1'; tb_scan = s.[2] = '1'; tb_start = start }

let csv s = if s = "-" then [] else List.map int_of_string (String.split_on_char ',' s)

let bits (o : n list) : string =
  if o = [] then "-" else
  String.concat "" (List.map (fun x -> match int_of_n x with 0 -> "0" | 1 -> "1" | v -> Printf.sprintf "<%02x>" v) o)

let garbage k = List.init k (fun _ -> n_of_int 0xAA)

(* the tables of one width are built once, like the members of the C++ object *)
let tables_cache = Hashtbl.create 8
let tables_of w = match Hashtbl.find_opt tables_cache w with
  | Some t -> t
  | None -> let t = c02_make_tables (nat_of_int w) in Hashtbl.add tables_cache w t; t

let do_q w toks =
  let tbl = tables_of w in
  let rec go sc toks acc =
    match toks with
    | i :: o :: v :: rest ->
      let inn = int_of_string i and out = int_of_string o in
      let r = List.map z_of_int (csv v) in
      if List.length r <> inn then List.rev ("?len" :: acc) else
      let ((ob, cost), sc') = c02_decode_t tbl tb (nat_of_int inn) (nat_of_int out) sc (garbage out) r in
      let s = Printf.sprintf "out=%s cost=%d mmin=%d" (bits ob) (int_of_z cost) (int_of_z (c02_min_of tb sc')) in
      go sc' rest (s :: acc)
    | _ -> List.rev acc in
  print_endline (String.concat " | " (go c02_scratch0 toks []))

let fnv_off = 0xcbf29ce484222325L
let fnv_prime = 1099511628211L

let do_x w inn out =
  let tbl = tables_of w and innat = nat_of_int inn and outnat = nat_of_int out in
  let l = (1 lsl (w - 1)) - 1 in
  let v = Array.make inn (-l) in
  let zl = z_of_int l and zm = z_of_int (-l) and z0 = z_of_int 0 in
  let count = ref 0 and h = ref fnv_off and hashes = ref [] in
  let flush () = hashes := Printf.sprintf "%016Lx" !h :: !hashes; h := fnv_off in
  let sc = ref c02_scratch0 in
  let g = garbage out in
  let continue = ref true in
  while !continue do
    let r = Array.to_list (Array.map (fun x -> if x = 0 then z0 else if x > 0 then zl else zm) v) in
    let ((ob, cost), sc') = c02_decode_t tbl tb innat outnat !sc g r in
    sc := sc';
    List.iter (fun b -> h := Int64.mul (Int64.logxor !h (Int64.of_int (int_of_n b))) fnv_prime) ob;
    h := Int64.mul (Int64.logxor !h (Int64.of_int (int_of_z cost + 0x100))) fnv_prime;
    incr count;
    if !count mod 729 = 0 then flush ();
    let i = ref 0 and stop = ref false in
    while not !stop && !i <> inn do
      if v.(!i) = -l then (v.(!i) <- 0; stop := true)
      else if v.(!i) = 0 then (v.(!i) <- l; stop := true)
      else (v.(!i) <- -l; incr i)
    done;
    if not !stop then continue := false
  done;
  if !count mod 729 <> 0 then flush ();
  Printf.printf "n=%d h=%s\n" !count (String.concat "," (List.rev !hashes))

let do_t w =
  let ((ns, ps), cost) = c02_tables (nat_of_int w) in
  let flat f t = String.concat "" (List.concat_map (fun row -> List.map (fun x -> string_of_int (f x) ^ ",") row) t) in
  Printf.printf "next=%s prev=%s cost=%s L=%d\n" (flat int_of_nat ns) (flat int_of_nat ps) (flat int_of_z cost)
    (int_of_z (c02_soft_limit (nat_of_int w)))

let () =
  iter_lines (fun line ->
    match split_ws line with
    | "q" :: w :: rest -> do_q (int_of_string w) rest
    | ["x"; w; i; o] -> do_x (int_of_string w) (int_of_string i) (int_of_string o)
    | ["t"; w] -> do_t (int_of_string w)
    | ["r"; w] -> Printf.printf "rounding L=%d checked=80001 bad=0 first=-1\n" ((1 lsl (int_of_string w - 1)) - 1)
    | ["g"; _] ->   (* the four geometries: IN OUT mask dfree(OUT), and the decoder's LLR width *)
      print_endline (String.concat " | " (List.map (fun (((i, o), m), d) ->
        Printf.sprintf "%d %d %s %d" (int_of_nat i) (int_of_nat o)
          (String.concat "" (List.map (fun b -> if b then "1" else "0") m)) (int_of_z d)) c02_masks)
        ^ " | llr=" ^ string_of_int (int_of_nat c02_llr))
    | ["f"; k; m] ->   (* dfree of an explicit mask for the first k bits *)
      let mask = List.init (String.length m) (fun i -> m.[i] = '1') in
      Printf.printf "%d\n" (int_of_z (c02_dfree mask (nat_of_int (int_of_string k))))
    | _ -> print_endline "?")
