(* C03/C06 driver.
   c03_driver ctl   : stdin = output of `c03_harness run` with trace on.  "I" line = initial public state, "S" lines = one per
                      sample (public discrete members after the call + the observations of that call), "D" lines = one per
                      dcd.update().  Every S line is checked against the extracted step function (from the observed state before
                      the call, hidden statics carried by the model); every D line against the extracted DataCarrierDetect model.
                      Other lines are passed through.  A summary line "T ..." is printed at the end.
   c03_driver dcd   : stdin lines "<level> <l1> <l2> <trig> [u] | <impl level> <impl trig> <impl l1> <impl l2> <impl finite>":
                      prints "ok" or "DIFF ..." per line. *)
open C03_model
(*#include conv.inc.ml*)
(*#include conv_z.inc.ml*)

let z_of_string (s : string) : z =
  if String.length s <= 17 then z_of_int (int_of_string s)
  else begin
    let neg = s.[0] = '-' in
    let acc = ref Z0 in
    String.iteri (fun i c -> if not (i = 0 && neg) then acc := Z.add (Z.mul !acc (z_of_int 10)) (z_of_int (Char.code c - 48))) s;
    if neg then Z.mul !acc (z_of_int (-1)) else !acc
  end
let rec pos_pow2 k = if k <= 0 then XH else XO (pos_pow2 (k - 1))
let q_of_float (f : float) : q =
  if f = 0.0 then { qnum = Z0; qden = XH } else begin
    let m, e = Float.frexp f in
    let mi = Int64.to_int (Int64.of_float (Float.ldexp m 53)) in
    let e' = e - 53 in
    (* strip trailing zero bits so the numbers stay small *)
    let mi = ref mi and e' = ref e' in
    while !mi land 1 = 0 do mi := !mi asr 1; incr e' done;
    if !e' >= 0 then { qnum = Z.mul (z_of_int !mi) (Zpos (pos_pow2 !e')); qden = XH }
    else { qnum = z_of_int !mi; qden = pos_pow2 (- !e') }
  end
let xval_of_float (f : float) : xval =
  if Float.is_nan f then NaN else if f = Float.infinity then PInf else if f = Float.neg_infinity then NInf else Fin (q_of_float f)
let rec float_of_pos (p : positive) : float = match p with XH -> 1.0 | XO q -> 2.0 *. float_of_pos q | XI q -> 2.0 *. float_of_pos q +. 1.0
let float_of_z (x : z) : float = match x with Z0 -> 0.0 | Zpos p -> float_of_pos p | Zneg p -> -. float_of_pos p
let float_of_q (x : q) : float = float_of_z x.qnum /. float_of_pos x.qden
let class_of (x : xval) = match x with Fin _ -> "fin" | PInf -> "+inf" | NInf -> "-inf" | NaN -> "nan"
let class_of_float f = class_of (xval_of_float f)

let dstate_of_int = function 0 -> UNLOCKED | 1 -> LSF_SYNC | 2 -> STREAM_SYNC | 3 -> PACKET_SYNC | 4 -> BERT_SYNC | 5 -> SYNC_WAIT | _ -> FRAME
let int_of_dstate = function UNLOCKED -> 0 | LSF_SYNC -> 1 | STREAM_SYNC -> 2 | PACKET_SYNC -> 3 | BERT_SYNC -> 4 | SYNC_WAIT -> 5 | FRAME -> 6
let swt_of_int = function 0 -> SW_LSF | 1 -> SW_STREAM | 2 -> SW_PACKET | _ -> SW_BERT
let int_of_swt = function SW_LSF -> 0 | SW_STREAM -> 1 | SW_PACKET -> 2 | SW_BERT -> 3
let dec_of_int = function 0 -> D_LSF | 1 -> D_STREAM | 2 -> D_BASIC_PACKET | 3 -> D_FULL_PACKET | _ -> D_BERT
let int_of_dec = function D_LSF -> 0 | D_STREAM -> 1 | D_BASIC_PACKET -> 2 | D_FULL_PACKET -> 3 | D_BERT -> 4
let b s = s <> "0"

(* public members in the order the harness prints them *)
let parse_state (a : string array) (o : int) (hidden_init : z) (hidden_eot : bool) : st =
  let zi k = z_of_string a.(o + k) in
  { init_left = hidden_init; eot_flag = hidden_eot;
    ds = dstate_of_int (int_of_string a.(o)); swt = swt_of_int (int_of_string a.(o + 1)); sample_index = zi 2;
    dcd_ = b a.(o + 3); ncr = b a.(o + 4); ncu = b a.(o + 5); sync_count = zi 6; missing = zi 7; ssi = zi 8; count = zi 9;
    cpos = zi 10; cprev = zi 11; fidx = zi 12; cost = zi 13; cr_idx = zi 14; cr_cnt = zi 15; dcd_trig = b a.(o + 16);
    dec_state = dec_of_int (int_of_string a.(o + 17)) }

let show (s : st) : string =
  Printf.sprintf "ds=%d swt=%d si=%d dcd=%b ncr=%b ncu=%b sc=%d miss=%d ssi=%d count=%d cpos=%d cprev=%d fidx=%d cost=%s cr=%d crc=%d trig=%b dec=%d init=%d eot=%b"
    (int_of_dstate s.ds) (int_of_swt s.swt) (int_of_z s.sample_index) s.dcd_ s.ncr s.ncu (int_of_z s.sync_count) (int_of_z s.missing)
    (int_of_z s.ssi) (int_of_z s.count) (int_of_z s.cpos) (int_of_z s.cprev) (int_of_z s.fidx)
    (let c = int_of_z s.cost in if c > 1_000_000 then "max" else string_of_int c)
    (int_of_z s.cr_idx) (int_of_z s.cr_cnt) s.dcd_trig (int_of_dec s.dec_state) (int_of_z s.init_left) s.eot_flag

let visible_equal (x : st) (y : st) : bool =
  { x with init_left = Z0; eot_flag = false } = { y with init_left = Z0; eot_flag = false }

let has_decode ev = List.exists (function EvDecode _ -> true | _ -> false) ev
let has_update ev = List.exists (function EvDcdUpdate -> true | _ -> false) ev

let ctl () =
  let cur = ref st_init in
  let steps = ref 0 and bad = ref 0 and dlines = ref 0 and dbad = ref 0 and dskip = ref 0 in
  let first_bad = ref "" in
  let pending_update = ref false in
  let upd_missing = ref 0 in
  (* evidence about the theorems' hypotheses on this real trace *)
  let periods = ref 0 and good_periods = ref 0 and in_period = ref false and period_ok = ref true and pf = ref false in
  let monitor = ref None and mon_viol = ref 0 and mon_periods = ref 0 in
  let wf_bad = ref 0 in
  let note s = if !first_bad = "" then first_bad := s in
  iter_lines (fun line ->
    if String.length line > 2 && line.[0] = 'S' && line.[1] = ' ' then begin
      let a = Array.of_list (split_ws line) in
      let ob = parse_state a 1 Z0 false in
      let zi k = z_of_string a.(k) in
      let o = { o_pre_idx = zi 19; o_pre_upd = zi 20; o_lsf_idx = zi 21; o_lsf_upd = zi 22; o_pkt_idx = zi 23; o_pkt_upd = zi 24;
                o_pre_trig = b a.(25); o_lsf_trig = zi 26; o_bert_neg = b a.(27); o_eot_trig = b a.(28);
                o_cr_sync = ob.cr_idx; o_cr_free = ob.cr_idx; o_dec_state = ob.dec_state; o_cost = ob.cost;
                o_lvl_hi = b a.(29); o_lvl_lo = b a.(30) } in
      let cbs = int_of_string a.(31) in
      if !pending_update then begin incr upd_missing; pending_update := false end;
      (* hypotheses of the tracking theorem, evaluated on the real trace period by period *)
      let pre = !cur in
      if boundary pre then begin
        (* a boundary-to-boundary interval ends here: count it, and whether the tracking hypotheses held throughout *)
        if !in_period then begin incr periods; if !period_ok then incr good_periods end;
        in_period := true; period_ok := true; pf := false;
        monitor := Some mon0
      end;
      if !in_period then begin
        if not (track_good !pf pre o) then period_ok := false;
        pf := far_next pre
      end;
      if not (wf_st pre) then incr wf_bad;
      let (s', ev) = step pre o in
      incr steps;
      (* the framing monitor runs on the model's events while the hypotheses hold *)
      (match !monitor with
       | Some m when !period_ok ->
         (match mon_step m ev with
          | Some m' -> monitor := Some m'; if has_decode ev then incr mon_periods
          | None -> incr mon_viol; monitor := None)
       | _ -> monitor := None);
      if cbs > 0 && not (has_decode ev) then begin incr bad; note (Printf.sprintf "step %d: frame callback without a model decode event" !steps) end;
      if has_update ev then pending_update := true;
      if not (visible_equal s' ob) then begin
        incr bad;
        note (Printf.sprintf "step %d: pre[%s] model[%s] impl[%s] line[%s]" !steps (show pre) (show s') (show ob) line)
      end;
      cur := { ob with init_left = s'.init_left; eot_flag = s'.eot_flag }
    end
    else if String.length line > 2 && line.[0] = 'D' && line.[1] = ' ' then begin
      incr dlines;
      if not !pending_update then begin incr dbad; note (Printf.sprintf "D line %d without a model EvDcdUpdate" !dlines) end;
      pending_update := false;
      match split_ws line with
      | [_; lb; l1; l2; tb; la; ta] ->
        let f = float_of_string in
        let d = { level_1 = xval_of_float (f l1); level_2 = xval_of_float (f l2); level_ = xval_of_float (f lb); triggered_ = b tb } in
        let d' = dcd_update d in
        let la = f la in
        let cls_ok = class_of d'.level_ = class_of_float la in
        let near x thr = Float.abs (x -. thr) <= 1e-5 *. (1.0 +. Float.abs x) in
        let val_ok, skip_trig = (match d'.level_ with
          | Fin q -> let m = float_of_q q in
            (Float.abs (m -. la) <= 1e-5 *. (1.0 +. Float.abs m), near m (float_of_q dCD_LTRIGGER) || near m (float_of_q dCD_HTRIGGER))
          | _ -> (true, false)) in
        if skip_trig then incr dskip;
        if not (cls_ok && val_ok && (skip_trig || d'.triggered_ = b ta)) then begin
          incr dbad; note (Printf.sprintf "dcd.update: %s -> model class=%s trig=%b, impl level=%h trig=%s" line (class_of d'.level_) d'.triggered_ la ta)
        end
      | _ -> incr dbad
    end
    else if String.length line > 2 && line.[0] = 'I' && line.[1] = ' ' then begin
      let a = Array.of_list (split_ws line) in
      let ob = parse_state a 1 st_init.init_left st_init.eot_flag in
      if not (visible_equal ob st_init) then begin incr bad; note ("initial state differs: " ^ show ob) end;
      cur := ob
    end
    else print_endline line);
  Printf.printf "T steps=%d bad=%d dlines=%d dbad=%d dskip=%d updmissing=%d wfbad=%d periods=%d goodperiods=%d monperiods=%d monviol=%d first=%s\n"
    !steps !bad !dlines !dbad !dskip !upd_missing !wf_bad !periods !good_periods !mon_periods !mon_viol (if !first_bad = "" then "-" else !first_bad)

let dcd () =
  iter_lines (fun line ->
    match String.split_on_char '|' line with
    | [c; r] ->
      (match split_ws c, split_ws r with
       | (lv :: l1 :: l2 :: tb :: rest), [ila; ita; il1; il2; _] ->
         let f = float_of_string in
         let d = { level_1 = xval_of_float (f l1); level_2 = xval_of_float (f l2); level_ = xval_of_float (f lv); triggered_ = b tb } in
         let d' = if rest = ["u"] then dcd_unlock d else dcd_update d in
         let cmp (m : xval) (i : float) =
           class_of m = class_of_float i &&
           (match m with Fin q -> let mf = float_of_q q in Float.abs (mf -. i) <= 1e-5 *. (1.0 +. Float.abs mf) | _ -> true) in
         let near = (match d'.level_ with
           | Fin q -> let m = float_of_q q in
             let n x thr = Float.abs (x -. thr) <= 1e-5 *. (1.0 +. Float.abs x) in n m (float_of_q dCD_LTRIGGER) || n m (float_of_q dCD_HTRIGGER)
           | _ -> false) in
         if cmp d'.level_ (f ila) && cmp d'.level_1 (f il1) && cmp d'.level_2 (f il2) && (near || d'.triggered_ = b ita)
         then print_endline "ok"
         else Printf.printf "DIFF model level=%s(%s) trig=%b\n" (class_of d'.level_) (match d'.level_ with Fin q -> string_of_float (float_of_q q) | _ -> "-") d'.triggered_
       | _ -> print_endline "?")
    | _ -> print_endline "?")

let () =
  match Array.to_list Sys.argv with
  | [_; "ctl"] -> ctl ()
  | [_; "dcd"] -> dcd ()
  | _ -> prerr_endline "usage: c03_driver ctl|dcd"; exit 2
