(* additional conversions for models that use Z and nat *)
let z_of_int (i : int) : z = if i = 0 then Z0 else if i > 0 then Zpos (pos_of_int i) else Zneg (pos_of_int (- i))
let int_of_z (x : z) : int = match x with Z0 -> 0 | Zpos p -> int_of_pos p | Zneg p -> - (int_of_pos p)
let rec nat_of_int (i : int) : nat = if i <= 0 then O else S (nat_of_int (i - 1))
let rec int_of_nat (x : nat) : int = match x with O -> 0 | S y -> 1 + int_of_nat y
