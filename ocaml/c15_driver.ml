(* C15/C16 driver for the extracted queue model.
   c15_driver seq impl|spec     : stdin lines "<cap> <op>..." -> results (same format as harness/c15.cpp seq)
   c15_driver trace <cap>       : stdin = events recorded by the stress harness -> "ACCEPT n" | "REJECT i tid event" *)
open C15_model
(* (conv.inc.ml needs the type N, which this model does not use: the few helpers are repeated here) *)
let rec pos_of_int (i : int) : positive =
  if i <= 1 then XH else if i land 1 = 1 then XI (pos_of_int (i lsr 1)) else XO (pos_of_int (i lsr 1))
let rec int_of_pos (p : positive) : int =
  match p with XH -> 1 | XO q -> 2 * int_of_pos q | XI q -> 2 * int_of_pos q + 1
let split_ws (s : string) : string list =
  List.filter (fun x -> x <> "") (String.split_on_char ' ' (String.trim s))
let iter_lines (f : string -> unit) : unit =
  try while true do f (input_line stdin) done with End_of_file -> ()
(*#include conv_z.inc.ml*)
let z_of_tok (s : string) : z = if s = "9223372036854775807" then int64_max else z_of_int (int_of_string s)
let billion = z_of_int 1000000000
let million = z_of_int 1000000
let op_of_tok (o : string) : op =
  let v () = nat_of_int (int_of_string (String.sub o 1 (String.length o - 1))) in
  match o.[0] with
  | 'p' -> OpPut (v (), int64_max, billion)
  | 'z' -> OpPut (v (), Z0, billion)
  | 'm' -> OpPut (v (), z_of_int 50, million)
  | 'g' -> OpGet (int64_max, billion)
  | 'u' -> OpGetUntil Z0
  | 'c' -> OpClose
  | 'o' -> OpQuery QIsOpen
  | 'l' -> OpQuery QIsClosed
  | 's' -> OpQuery QSize
  | 'e' -> OpQuery QEmpty
  | _ -> failwith "op"
let show (r : resp option) : string =
  match r with
  | None -> "BLOCK"
  | Some (ROk None) -> "1"
  | Some (ROk (Some v)) -> "v" ^ string_of_int (int_of_nat v)
  | Some (RFail _) -> "f"
  | Some RUnit -> "."
  | Some (RQuery n) -> string_of_int (int_of_nat n)
let names = [| "INV"; "LOCK"; "WENTER"; "WEXIT"; "PUSH"; "POP"; "STATE"; "RET"; "RESP" |]
let () =
  match Array.to_list Sys.argv with
  | [_; "seq"; which] ->
    iter_lines (fun line ->
      match split_ws line with
      | cap :: ops ->
        let ops' = List.map op_of_tok ops in
        let cap = nat_of_int (int_of_string cap) in
        let rs = if which = "spec" then c15_spec_run cap ops' else c15_run_seq cap ops' in
        (* a failed put prints 0, a failed get prints - : distinguish by the operation *)
        let rec zip os rs = match os, rs with
          | o :: os', r :: rs' ->
            (match r with
             | Some (RFail _) -> (match o with OpPut _ -> "0" | _ -> "-")
             | _ -> show r) :: zip os' rs'
          | _, _ -> [] in
        let out = zip ops' rs in
        print_endline (if out = [] then "(none)" else String.concat " " out)
      | [] -> print_endline "?")
  | [_; "trace"; cap] ->
    let evs = ref [] and raw = ref [] in
    iter_lines (fun line ->
      match split_ws line with
      | [tid; kind; a; b; c; d] ->
        let t = nat_of_int (int_of_string tid) in
        let ia = if a = "9223372036854775807" then 0 else int_of_string a in
        let e =
          match kind with
          | "INV" ->
            (match ia with
             | 1 -> Some (EInvoke (OpPut (nat_of_int (int_of_string b), z_of_tok c, z_of_tok d)))
             | 2 -> Some (EInvoke (OpGet (z_of_tok b, z_of_tok c)))
             | 3 -> Some (EInvoke (OpGetUntil (z_of_tok b)))
             | 5 -> Some (EInvoke OpClose)
             | 4 -> Some (EInvoke (OpQuery (match int_of_string b with 0 -> QIsOpen | 1 -> QIsClosed | 2 -> QSize | _ -> QEmpty)))
             | _ -> None)
          | "LOCK" -> Some ELock
          | "WENTER" -> Some (EWaitEnter ((if ia / 2 = 0 then CvFull else CvEmpty), ia land 1 = 1))
          | "WEXIT" -> Some (EWaitExit ((if ia / 2 = 0 then CvFull else CvEmpty), ia land 1 = 1))
          | "PUSH" -> Some (EPush (nat_of_int ia))
          | "POP" -> Some (EPop (nat_of_int ia))
          | "STATE" -> Some (EStateWrite (match ia with 0 -> OPEN | 1 -> CLOSING | _ -> CLOSED))
          | "RET" -> Some (EReturn (nat_of_int ia))
          | _ -> None in
        (match e with Some e -> evs := (t, e) :: !evs; raw := line :: !raw | None -> ())
      | _ -> ());
    let tr = List.rev !evs and raw = Array.of_list (List.rev !raw) in
    let cap = nat_of_int (int_of_string cap) in
    if c15_accepts cap tr then Printf.printf "ACCEPT %d\n" (List.length tr)
    else (match c15_first_reject cap tr with
          | Some i -> let i = int_of_nat i in Printf.printf "REJECT %d %s\n" i (if i < Array.length raw then raw.(i) else "?")
          | None -> Printf.printf "REJECT -1 (synthesised schedule not executable)\n")
  | _ -> prerr_endline "usage: c15_driver seq impl|spec | trace <cap>"; exit 2
