(* C17 driver: one case per line on stdin, one canonical result per line on stdout (same protocol as harness/c17.cpp).
   usage: c17_driver impl|spec
   impl: the extracted ImplCallsign.  spec: what the property demands, from the extracted SpecCallsign:
         rt s  -> spec_encode s, pad10 s  (only for valid callsigns, "-" otherwise)
         dec a -> B (broadcast) | R (reserved) | the specification's text (hex, space for digit 0) *)
open C17_model
(*#include conv.inc.ml*)
let hex10 l = hex_of_bytes l
let () =
  let spec = Array.length Sys.argv > 1 && Sys.argv.(1) = "spec" in
  let take n l = List.filteri (fun i _ -> i < n) l in
  let rt s =
    if spec then
      (if c17_spec_valid s then hex_of_bytes (c17_spec_encode s) ^ " " ^ hex10 (pad10 s) else "-")
    else begin
      let call = take 10 (pad10 s) in
      let e = c17_impl_encode call in
      match c17_impl_decode e with
      | Some d -> hex_of_bytes e ^ " " ^ hex10 d
      | None -> hex_of_bytes e ^ " none"
    end in
  iter_lines (fun line ->
    match split_ws line with
    | ["enc"; st; h] ->
      if spec then print_endline "-" else begin
        let s = take 10 (pad10 (bytes_of_hex h)) in
        match c17_impl_encode_gen (st = "1") s with
        | Some e -> print_endline ("ok " ^ hex_of_bytes e)
        | None -> print_endline "exc"
      end
    | ["dec"; h] ->
      let a = bytes_of_hex h in
      if spec then
        (match c17_spec_decode a with
         | Broadcast -> print_endline "B"
         | Reserved -> print_endline "R"
         | Callsign s -> print_endline ("C " ^ hex_of_bytes s))
      else
        (match c17_impl_decode a with
         | Some d -> print_endline (hex10 d)
         | None -> print_endline "none")
    | ["rt"; h] -> print_endline (rt (bytes_of_hex h))
    | ["rtx"; p; al] ->
      let p = bytes_of_hex p and al = bytes_of_hex al in
      print_endline (String.concat "," (List.map (fun c -> rt (p @ [c])) al))
    | _ -> print_endline "?")
