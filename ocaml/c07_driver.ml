(* C07/C20 driver: one case per line on stdin, one canonical result line per case on stdout.
   usage: c07_driver [sites]      with "sites" a fault is printed as DIED[<site>] instead of DIED
   Parsing / printing only; every decision is made by the extracted model. *)
open C07_model
type coq_string = C07_model.string
type string = Stdlib.String.t
(*#include conv.inc.ml*)
(*#include conv_z.inc.ml*)

let char_of_ascii (Ascii (b0, b1, b2, b3, b4, b5, b6, b7)) =
  let v b i = if b then 1 lsl i else 0 in
  Char.chr (v b0 0 + v b1 1 + v b2 2 + v b3 3 + v b4 4 + v b5 5 + v b6 6 + v b7 7)
let rec ocaml_of_coq (s : coq_string) : string =
  match s with EmptyString -> "" | String (a, r) -> Stdlib.String.make 1 (char_of_ascii a) ^ ocaml_of_coq r

let sites = Array.length Sys.argv > 1 && Sys.argv.(1) = "sites"
let died kind site = if sites then Printf.sprintf "DIED[%s:%s]" kind (ocaml_of_coq site) else "DIED"
let fault_text : 'a. 'a res -> string = function
  | Ok _ -> ""
  | Oob s -> died "oob" s
  | Throw s -> died "throw" s
  | Diverge -> if sites then "DIED[diverge]" else "DIED"

let int8s_of_hex (s : string) : z list =
  List.map (fun x -> let v = int_of_n x in z_of_int (if v >= 128 then v - 256 else v)) (bytes_of_hex s)

let all_zero l = List.for_all (fun x -> int_of_n x = 0) l

let show_out (o : out) : string =
  let c2 = if o.r_c2 = [] then "-" else Stdlib.String.concat "," (List.map hex_of_bytes o.r_c2) in
  let n = List.length o.r_out in
  Printf.sprintf "r=%d e=%s o=%d%s c2=%s" (if o.r_ret then 1 else 0) (hex_of_bytes o.r_err) n
    (if n > 0 && o.r_c2 = [] && all_zero o.r_out then "z" else "") c2

let parse_cb (t : string) =
  match Stdlib.String.split_on_char ':' t with
  | ["L"; h; c] -> `Cb (CbLSF (bytes_of_hex h, z_of_int (int_of_string c)))
  | ["I"; c] -> `Cb (CbLICH (z_of_int (int_of_string c)))
  | ["S"; h; c] -> `Cb (CbStream (bytes_of_hex h, z_of_int (int_of_string c)))
  | ["P"; h; c] -> `Cb (CbBasicPacket (bytes_of_hex h, z_of_int (int_of_string c)))
  | ["F"; h; c] -> `Cb (CbFullPacket (bytes_of_hex h, z_of_int (int_of_string c)))
  | ["B"; h; c] -> `Cb (CbBert (bytes_of_hex h, z_of_int (int_of_string c)))
  | ["X"; h; _] -> `Full (bytes_of_hex h)
  | _ -> failwith ("bad callback " ^ t)

let run_app flags cbs =
  let o = c07_opts (flags.[0] = '1') (flags.[1] = '1') in
  let rec go st cbs acc =
    match cbs with
    | [] -> List.rev acc
    | cb :: r ->
      let res = match parse_cb cb with
        | `Cb c -> c07_handle_frame o st c
        | `Full seg -> c07_decode_full_packet st seg in
      (match res with
       | Ok (st', out) -> go st' r (show_out out :: acc)
       | f -> List.rev (fault_text f :: acc)) in
  Stdlib.String.concat " | " (go c07_init cbs [])


(* ---- Correlator / SyncWord index models (V = Z); same text protocol as the harness commands corr / sw *)
let join_z l = Stdlib.String.concat "." (List.map (fun x -> string_of_int (int_of_z x)) l)
let finish outs fault = print_endline (Stdlib.String.concat " " (List.rev outs) ^ (if fault = "" then "" else (if outs = [] then "" else " | ") ^ fault))
let tail1 (op : string) = int_of_string (Stdlib.String.sub op 1 (Stdlib.String.length op - 1))

let run_corr ops =
  let ((bsize, tsize), _) = c07_corr_sizes in
  let buffer = List.init (int_of_nat bsize) (fun k -> z_of_int (- (k + 1))) in
  let weights = List.map z_of_int [1; 2; 4; 8; 16; 32; 64; -128] in
  let rec go c ops outs =
    match ops with
    | [] -> finish outs ""
    | op :: r ->
      (match op.[0] with
       | 's' -> (match c07_corr_sample c (z_of_int (tail1 op)) with
                 | Ok c' -> go c' r (Printf.sprintf "p=%d.%d.%d" (int_of_nat c'.c_pos) (int_of_nat c'.c_prev) (int_of_nat (c07_corr_index c')) :: outs)
                 | f -> finish outs (fault_text f))
       | 'c' -> (match c07_corr_correlate c weights with
                 | Ok xs -> go c r (Printf.sprintf "c=%d" (List.fold_left (fun a (w, x) -> a + int_of_z w * int_of_z x) 0 xs) :: outs)
                 | f -> finish outs (fault_text f))
       | 'o' -> (match c07_corr_osl c (nat_of_int (tail1 op)) with
                 | Ok ((c', _), _) -> go c' r (("o=" ^ join_z c'.c_tmp) :: outs)
                 | f -> finish outs (fault_text f))
       | 'a' -> (match c07_corr_apply c (nat_of_int (tail1 op)) with
                 | Ok xs -> go c r (("a=" ^ join_z xs) :: outs)
                 | f -> finish outs (fault_text f))
       | _ -> finish outs "?") in
  go (c07_corr_init buffer (List.init (int_of_nat tsize) (fun _ -> z_of_int (-7)))) ops []

let run_sw ops =
  let (_, ssize) = c07_corr_sizes in
  let rec go s ops outs =
    match ops with
    | [] -> finish outs ""
    | "u" :: r -> let (s', u) = c07_sw_take_updated s in go s' r (Printf.sprintf "u=%d" (int_of_z u) :: outs)
    | op :: r ->
      (match Stdlib.String.split_on_char ':' op with
       | [v; i] ->
         let v = int_of_string v in
         (match c07_sw_step s (v <> 0) (z_of_int v) (nat_of_int (int_of_string i)) with
          | Ok (s', t) -> go s' r (Printf.sprintf "t=%d.%d/%s" (int_of_nat t) (if s'.sw_trig then 1 else 0) (join_z s'.sw_samples) :: outs)
          | f -> finish outs (fault_text f))
       | _ -> finish outs "?") in
  go (c07_sw_init (List.init 8 (fun _ -> z_of_int 1)) (List.init (int_of_nat ssize) (fun _ -> z_of_int 9))) ops []

let q_of num den = { qnum = z_of_int num; qden = pos_of_int den }

let () =
  iter_lines (fun line ->
    match split_ws line with
    | ["app"; flags; cbs] -> print_endline (run_app flags (Stdlib.String.split_on_char ';' cbs))
    | ["ax25"; h] ->
      (match c07_parse (bytes_of_hex h) with
       | Ok f ->
         let (text, hex) = c07_write_text f in
         Printf.printf "ok t=%d fcs=%04x pid=%s hex=%d text=%s\n" (int_of_n f.ax_type) (int_of_n f.ax_fcs)
           (match f.ax_pid with None -> "-" | Some p -> Printf.sprintf "%02x" (int_of_n p)) (if hex then 1 else 0) (hex_of_bytes text)
       | r -> print_endline (fault_text r))
    | ["call"; h] ->
      (match c07_decode_callsign (bytes_of_hex h) with
       | Ok c -> Printf.printf "ok %s\n" (hex_of_bytes c)
       | r -> print_endline (fault_text r))
    | ["framer"; h] ->
      let vals = int8s_of_hex h in
      let rec pairs = function a :: b :: r -> (a, b) :: pairs r | _ -> [] in
      let rec go f frames = function
        | [] -> Printf.printf "idx=%d frames=%d\n" (int_of_nat f.f_index) frames
        | s :: r ->
          (match c07_framer_step f s with
           | Ok (f', None) -> go f' frames r
           | Ok (f', Some _) -> go f' (frames + 1) r
           | x -> print_endline (fault_text x)) in
      go c07_framer_init 0 (pairs vals)
    | ["lichcopy"; l; s] ->
      (match c07_lich_copy (bytes_of_hex l) (bytes_of_hex s) with
       | Ok None -> Printf.printf "lsf=%s\n" (hex_of_bytes (bytes_of_hex s))
       | Ok (Some lsf) -> Printf.printf "lsf=%s\n" (hex_of_bytes lsf)
       | r -> print_endline (fault_text r))
    | ["unpack"; h] ->
      (match c07_unpack_lich (int8s_of_hex h) with
       | Ok None -> print_endline "fail"
       | Ok (Some (lich, _)) -> Printf.printf "lich=%s\n" (hex_of_bytes lich)
       | r -> print_endline (fault_text r))
    | ["clk"; num; den] ->
      (match c07_sample_index_of (q_of (int_of_string num) (int_of_string den)) with
       | Some s -> Printf.printf "si=%d\n" (int_of_z s)
       | None -> print_endline "UB")
    | ["clk0"; num; den] ->
      (match c07_sample_index_update0 (q_of (int_of_string num) (int_of_string den)) with
       | Some s -> Printf.printf "si=%d\n" (int_of_z s)
       | None -> print_endline "UB")
    | ["corr"; ops] -> run_corr (Stdlib.String.split_on_char ',' ops)
    | ["sw"; ops] -> run_sw (Stdlib.String.split_on_char ',' ops)
    | _ -> print_endline "?")
