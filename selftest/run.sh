#!/bin/sh
# selftest/run.sh <property> <patch.diff> [tier]
# Applies one patch of selftest/mutants or selftest/equivalent to a scratch copy of the repository, runs the check
# against it, prints the outcome lines, then re-runs nothing else (run ./check <property> afterwards to regenerate
# coq/gen from the unchanged /repo).
set -e
P="$1"; D="$(realpath "$2")"; T="${3:-quick}"
V="$(cd "$(dirname "$0")/.." && pwd)"
S="$(mktemp -d /tmp/mut-XXXXXX)"
git -C "${M17_REPO_SRC:-/repo}" archive HEAD | tar -x -C "$S"
patch -s -p1 -d "$S" < "$D"
set +e
M17_REPO="$S" "$V/check" "$P" --tier "$T" > "$S.log" 2>&1
RC=$?
grep -E "^(VIOLATION|KNOWN-FINDING)|\] tier=" "$S.log"
echo "exit=$RC patch=$(basename "$D")"
rm -rf "$S"
exit 0
