#!/usr/bin/env python3
"""Self-test of the C13 check: every selftest/mutants/C13-*.diff (applied to a scratch copy of /repo) must be reported
with a concrete replay; every selftest/equivalent/C13-*.diff must raise no alarm.  Usage: selftest/c13_selftest.py [name...]"""
import json, os, re, shutil, subprocess, sys, time
from pathlib import Path
V = Path(__file__).resolve().parent.parent
REPO = os.environ.get("M17_REPO_BASE", "/repo")
SCR = Path("/tmp/mut-c13-selftest")


def run_one(diff, expect_violation):
    if SCR.exists():
        shutil.rmtree(SCR)
    SCR.mkdir(parents=True)
    subprocess.run(f"git -C {REPO} archive HEAD | tar -x -C {SCR}", shell=True, check=True)
    subprocess.run(["patch", "-p1", "-s", "-i", str(diff)], cwd=SCR, check=True)
    t0 = time.time()
    env = dict(os.environ, M17_REPO=str(SCR))
    p = subprocess.run([str(V / "check"), "C13", "--tier", "quick"], cwd=V, env=env, capture_output=True, text=True)
    out = p.stdout + p.stderr
    viol = re.findall(r"^VIOLATION property=C13 replay=(\S+)(.*)$", out, re.M)
    keys = []
    for path, rest in viol:
        try:
            d = json.load(open(path))
            keys.append(d.get("key") or ("broken:" + ",".join(x["name"] for x in d.get("no_longer_checks", []))[:80]))
        except Exception as e:  # noqa
            keys.append("?")
    concrete = any("no-failing-input-found" not in rest for _, rest in viol)
    ok = (p.returncode == 1 and concrete) if expect_violation else (p.returncode == 0 and not viol)
    print(f"{'OK  ' if ok else 'FAIL'} {diff.stem:32s} exit={p.returncode} violations={keys} {time.time() - t0:.0f}s", flush=True)
    return ok, keys


def main():
    names = sys.argv[1:]
    res = []
    for d in sorted((V / "selftest" / "mutants").glob("C13-*.diff")):
        if not names or d.stem in names:
            res.append(run_one(d, True)[0])
    for d in sorted((V / "selftest" / "equivalent").glob("C13-*.diff")):
        if not names or d.stem in names:
            res.append(run_one(d, False)[0])
    # leave coq/gen regenerated from the real repository
    subprocess.run([str(V / "check"), "C13", "--tier", "quick"], cwd=V, capture_output=True, text=True)
    shutil.rmtree(SCR, ignore_errors=True)
    sys.exit(0 if all(res) else 1)


if __name__ == "__main__":
    main()
