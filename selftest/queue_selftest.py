#!/usr/bin/env python3
"""Self-test of the C15/C16 checks: apply each patch of selftest/mutants/C15-*.diff, C16-*.diff (expect VIOLATION with a
concrete replay) and selftest/equivalent/C1[56]-*.diff (expect exit 0) to a scratch copy of the repository (never /repo),
run the check of the property the patch is named after, print one line per patch; finally re-run both checks on /repo so
that coq/gen is regenerated from the unchanged tree.   usage: selftest/queue_selftest.py [--hook] [pattern]"""
import json
import os
import re
import shutil
import subprocess
import sys
import tempfile
import time
from pathlib import Path

VERIF = Path(__file__).resolve().parent.parent
REPO = os.environ.get("M17_BASE_REPO", "/repo")


def main():
    args = [a for a in sys.argv[1:] if not a.startswith("--")]
    hook = "--hook" in sys.argv
    pat = args[0] if args else ""
    patches = sorted((VERIF / "selftest/mutants").glob("C1[56]-*.diff")) + sorted((VERIF / "selftest/equivalent").glob("C1[56]-*.diff"))
    rows = []
    for p in patches:
        if pat and pat not in p.name:
            continue
        prop = p.name[:3]
        expect_violation = p.parent.name == "mutants"
        d = Path(tempfile.mkdtemp(prefix="m17-selftest-"))
        try:
            subprocess.run(f"git -C {REPO} archive HEAD | tar -x -C {d}", shell=True, check=True)
            if hook:
                subprocess.run(["patch", "-p1", "-s", "-d", str(d), "-i", str(VERIF / "patches/queue-hook.diff")], check=True)
            r = subprocess.run(["patch", "-p1", "-s", "--fuzz=3", "-d", str(d), "-i", str(p)])
            if r.returncode != 0:
                rows.append((p.name, "PATCH-DOES-NOT-APPLY", "", 0))
                continue
            t0 = time.time()
            env = dict(os.environ, M17_REPO=str(d))
            r = subprocess.run([str(VERIF / "check"), prop, "--tier", "quick"], env=env, stdout=subprocess.PIPE, stderr=subprocess.STDOUT, text=True)
            keys = []
            for m in re.finditer(r"VIOLATION property=\S+ replay=(\S+)", r.stdout):
                try:
                    j = json.load(open(m.group(1)))
                    keys.append(j.get("key") or ("broken:" + ",".join(sorted({b["name"] for b in j.get("no_longer_checks", [])}))[:80]))
                except OSError:
                    keys.append("?")
            concrete = any(not k.startswith("broken:") for k in keys)
            ok = (r.returncode == 1 and concrete) if expect_violation else (r.returncode == 0)
            rows.append((p.name, "ok" if ok else "UNEXPECTED", f"exit={r.returncode} keys={keys}", round(time.time() - t0, 1)))
        finally:
            shutil.rmtree(d, ignore_errors=True)
        print(rows[-1], flush=True)
    for prop in ("C15", "C16"):
        r = subprocess.run([str(VERIF / "check"), prop, "--tier", "quick"], stdout=subprocess.PIPE, stderr=subprocess.STDOUT, text=True)
        print(f"unchanged tree {prop}: exit={r.returncode}", flush=True)
    bad = [r for r in rows if r[1] != "ok"]
    print(f"{len(rows) - len(bad)}/{len(rows)} as expected")
    sys.exit(1 if bad else 0)


if __name__ == "__main__":
    main()
