#!/bin/sh
# usage: selftest/run_patch.sh C17 selftest/mutants/C17-foo.diff [--tier quick]
# Applies one patch to a scratch copy of /repo (never /repo itself), runs the check against it and prints the
# outcome lines and the replay; afterwards re-generates the constants from /repo.
set -u
here="$(cd "$(dirname "$0")/.." && pwd)"
prop="$1"; patch="$2"; shift 2
scratch="$(mktemp -d /tmp/m17-mut-XXXXXX)"
git -C /repo archive HEAD | tar -x -C "$scratch"
if ! patch -s -p1 -d "$scratch" < "$patch"; then echo "PATCH-FAILED $patch"; rm -rf "$scratch"; exit 2; fi
if ! g++ -std=c++20 -fsyntax-only -I"$scratch/include/m17cxx" -I"$scratch/include" -x c++ - <<EOC
#include "LinkSetupFrame.h"
#include "Util.h"
EOC
then echo "MUTANT-DOES-NOT-COMPILE $patch"; rm -rf "$scratch"; exit 2; fi
M17_REPO="$scratch" "$here/check" "$prop" "$@" > "$scratch/out.txt" 2>&1
rc=$?
grep -E "VIOLATION|KNOWN-FINDING|tier=|correspondence broken|obligation failed|translator" "$scratch/out.txt" | cut -c1-400
for f in $(grep -o "replay=[^ ]*" "$scratch/out.txt" | cut -d= -f2); do echo "--- $f"; python3 -c "
import json,sys
d=json.load(open('$f'))
print(json.dumps({k:d[k] for k in d if k in ('key','what','replay','no_longer_checks')},default=str)[:900])"; done
echo "exit=$rc patch=$(basename "$patch")"
rm -rf "$scratch"
# put coq/gen back to the constants of /repo
(cd "$here" && python3 - "$prop" <<'EOP'
import sys, importlib
sys.path.insert(0, "tools")
import vlib
mod = importlib.import_module("props." + sys.argv[1].lower())
ctx = vlib.Ctx(mod, "quick", 0, "/repo")
with vlib.CoqLock():
    ctx.step_consts()
EOP
) > /dev/null
exit $rc
