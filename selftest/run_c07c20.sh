#!/bin/sh
# Self-test of the C07 / C20 checks: every patch in selftest/mutants/C07-*.diff, C20-*.diff must be reported with a
# concrete replay (VIOLATION ... replay=<file with an input>), every patch in selftest/equivalent/ must pass.
# usage: sh selftest/run_c07c20.sh [pattern]       (sequential: the checks share coq/gen)
cd "$(dirname "$0")/.." || exit 2
pat="${1:-C}"
tmp="${TMPDIR:-/tmp}/m17-selftest-c07c20"
for kind in mutants equivalent; do
  for p in selftest/$kind/C07-*.diff selftest/$kind/C20-*.diff; do
    [ -f "$p" ] || continue
    case "$p" in *"$pat"*) ;; *) continue ;; esac
    prop=$(basename "$p" | cut -c1-3)
    rm -rf "$tmp"; mkdir -p "$tmp"; git -C /repo archive HEAD | tar -x -C "$tmp"
    if ! patch -s -p1 -d "$tmp" < "$p"; then echo "$kind $(basename $p): PATCH DOES NOT APPLY"; continue; fi
    rm -f replays/$prop-*.json
    out=$(M17_REPO="$tmp" ./check $prop --tier quick 2>&1); rc=$?
    keys=$(python3 - "$prop" <<'PY'
import glob, json, sys
ks = []
for f in sorted(glob.glob(f"replays/{sys.argv[1]}-*.json")):
    d = json.load(open(f))
    if "key" in d:
        ks.append(d["key"])
    else:
        ks.append("broken:" + ",".join(sorted({b["name"][:40] for b in d.get("no_longer_checks", [])}))[:160])
print(" ".join(ks))
PY
)
    echo "$kind $(basename "$p"): exit=$rc keys=[$keys] $(echo "$out" | grep -c '^VIOLATION') violation line(s); $(echo "$out" | tail -1)"
  done
done
rm -rf "$tmp"
# regenerate coq/gen from the real repository
./check C07 --tier quick > /dev/null 2>&1; echo "unchanged /repo: C07 exit=$?"
./check C20 --tier quick > /dev/null 2>&1; echo "unchanged /repo: C20 exit=$?"
